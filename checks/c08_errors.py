"""C08  Rejections are UnexpectedInput errors at the first offending position, with trustworthy continuation sets."""
from hypothesis import strategies as st
from vlib.harness import Phase, Violation
from vlib import gram, gramgen, refearley, reflalr, coords
from lark import Lark
from lark.exceptions import (UnexpectedInput, UnexpectedToken, UnexpectedCharacters, UnexpectedEOF, GrammarError, ParseError)

ID = 'C08'
LEVEL = 'exploration'
HANG_IS_VIOLATION = True
RULE = ('generated grammars (prefix-free and overlapping string terminals, %ignore) x inputs the reference rejects (one-edit mutants of '
        'sentences put the error in the middle) x {earley basic/dynamic/dynamic_complete, lalr basic/contextual, cyk}. Oracle: a textbook '
        'Earley recogniser over the token (or character) lattice gives the first non-viable token / the furthest reachable boundary and '
        'the exact next-terminal sets; for LALR with conflicts the first token without action in an LR driver on the independently built '
        'LALR(1) table. Checked: exception class, position (offset, line, column), $END/EOF form, allowed == next set (dynamic), '
        'expected >= next set (earley basic), accepts <= next set and <= expected (LALR). Non-trivial = rejected input whose error is '
        'neither at offset 0 nor at end of input; distinct = (grammar, engine, input)')
ASSUMPTIONS = ['thorough tier only: a coverage-guided atheris campaign (16 x 60k executions) over raw bytes into the repository\'s own grammars (JSON, calculator, python.lark + PythonIndenter, the grammar loader) checks the exception-type clause; libFuzzer seeds pin it only approximately',
               'reference works on lark\'s compiled BNF and terminal patterns (the lexing layer is decided by C07/C01)',
               'viable-prefix sets are exact because generated grammars are reduced (all rules productive and reachable)',
               'overlapping terminals are fixed strings, so dynamic and dynamic_complete see the same match lengths']

O_TOK = gramgen.Opts(terms='tok', max_rules=4, ignore=True, templates=True, priorities=True, ignore_in_rules=True, shaping=True)     # shaping: aliases, ?, !, _ (error reporting walks the rules)
O_OVL = gramgen.Opts(terms='ovl', max_rules=4, ignore=True, ignore_in_rules=True)


def outcome(p, w):
    try:
        p.parse(w)
        return None
    except UnexpectedInput as e:
        return e


def check(case, ctx):
    g = case.get('g'); fam = case['family']
    gtext = case.get('gtext') or gram.render_grammar(g)
    engines = [('earley', 'dynamic'), ('earley', 'dynamic_complete')]
    if fam == 'tok':
        engines = [('earley', 'basic'), ('lalr', 'basic'), ('lalr', 'contextual'), ('cyk', 'basic')] + engines
    parsers = {}
    cyclic = gram.analyse(g)['cyclic'] if g is not None else False
    for parser, lexer in engines:
        if parser == 'cyk' and cyclic: continue
        try:
            parsers[(parser, lexer)] = Lark(gtext, parser=parser, lexer=lexer)
        except GrammarError as e:
            if 'Rules defined twice' in str(e):
                ctx.discard('GrammarError: rules defined twice'); return
            if parser == 'lalr': continue
            raise Violation('construction raised GrammarError', grammar=gtext, engine=[parser, lexer], error=str(e)[:300])
        except ParseError as e:
            if parser == 'cyk': continue
            raise
    pe = parsers[('earley', 'dynamic')]
    lrules = pe.rules
    ignore_names = set(pe.ignore_tokens)
    ign_used = any(sym.is_term and sym.name in ignore_names for r in lrules for sym in r.expansion)
    lalr = None
    if ('lalr', 'basic') in parsers:
        lalr = reflalr.RefLALR(reflalr.from_lark(parsers[('lalr', 'basic')].rules), ['start'])
    for w in case['texts']:
        n = len(w)
        # ---- character level (dynamic lexers)
        edges, ign = refearley.char_lattice(pe.terminals, ignore_names, w, all_lengths=True)
        rc = refearley.RefEarley(lrules, 'start', n, edges, ign)
        if rc.accepted():
            ctx.label('input:accepted'); continue
        F = rc.furthest()
        for lx in ('dynamic', 'dynamic_complete'):
            e = _must_reject(parsers[('earley', lx)], w, gtext, ('earley', lx))
            if F == n:
                if not isinstance(e, UnexpectedEOF):
                    raise Violation('whole input is a viable prefix but the error is not UnexpectedEOF', grammar=gtext, text=w, engine=['earley', lx], got=type(e).__name__,
                                    pos=getattr(e, 'pos_in_stream', None))
                if set(e.expected) != rc.expected(n):
                    raise Violation('UnexpectedEOF.expected differs from the terminals that can come next', grammar=gtext, text=w, engine=['earley', lx],
                                    got=sorted(e.expected), want=sorted(rc.expected(n)))
            else:
                if not isinstance(e, UnexpectedCharacters):
                    raise Violation('error is not UnexpectedCharacters', grammar=gtext, text=w, engine=['earley', lx], got=type(e).__name__, want_pos=F)
                if e.pos_in_stream != F:
                    raise Violation('error position is not the furthest boundary a viable chain of tokens reaches', grammar=gtext, text=w,
                                    engine=['earley', lx], got=e.pos_in_stream, want=F)
                if (e.line, e.column) != coords.line_col(w, F):
                    raise Violation('error line/column do not denote the error offset', grammar=gtext, text=w, engine=['earley', lx],
                                    got=[e.line, e.column], want=list(coords.line_col(w, F)))
                if set(e.allowed) != rc.expected(F):
                    raise Violation('allowed set differs from the terminals that can legally come next', grammar=gtext, text=w, engine=['earley', lx],
                                    got=sorted(e.allowed), want=sorted(rc.expected(F)), pos=F)
            if 0 < F < n:
                ctx.nontrivial([gtext, lx, w], sample={'grammar': gtext, 'text': w, 'engine': 'earley/' + lx, 'error_offset': F, 'next': sorted(rc.expected(F))})
            ctx.label('dynamic:rejected-checked')
        if fam != 'tok':
            continue
        if ign_used:
            # a rule references an %ignore'd terminal: a basic/contextual lexer never delivers it, so the token-level parsers work on
            # a grammar part of which is dead and their continuation sets name a token that cannot arrive; only the dynamic lexers,
            # which do match such a terminal when a rule asks for it, are judged on these grammars
            ctx.label('token-level:skipped (ignored terminal used by a rule)'); continue
        # ---- token level
        pb = parsers[('earley', 'basic')]
        toks = []; lexerr = None
        try:
            for t in pb.lex(w): toks.append(t)
        except UnexpectedCharacters as le:
            lexerr = le.pos_in_stream
        types = [t.type for t in toks]
        rt = refearley.RefEarley(lrules, 'start', len(types), refearley.token_lattice(types))
        bad = next((k for k in range(len(types)) if not rt.viable(k + 1)), None)
        # earley basic
        e = _must_reject(pb, w, gtext, ('earley', 'basic'))
        _check_token_level(e, w, toks, bad, lexerr, rt, gtext, ('earley', 'basic'), superset=True)
        if bad not in (None, 0):
            ctx.nontrivial([gtext, 'earley/basic', w], sample={'grammar': gtext, 'text': w, 'engine': 'earley/basic', 'error_token_index': bad})
        # lalr
        for lx in ('basic', 'contextual'):
            p = parsers.get(('lalr', lx))
            if p is None: continue
            acc, tops, reds, erri = lalr.run(types, 'start')
            if acc == 'loop' or (lexerr is not None and acc is True):
                if acc == 'loop':
                    # lark's LR driver spins forever on this input (same table): reported once as a violation of "never a hang"
                    raise Violation('LALR parser never returns: endless reduce loop', grammar=gtext, text=w, engine=['lalr', lx], reduce_loop=True)
            if acc is True and lexerr is None:
                # LALR-accepted although the CFG rejects?  C02 decides soundness; here it would be an oracle disagreement
                raise Violation('LALR accepts an input outside the language', grammar=gtext, text=w, engine=['lalr', lx])
            e = _must_reject(p, w, gtext, ('lalr', lx))
            lbad = erri if (acc is False and erri is not None and erri < len(types)) else None
            at_end = acc is False and erri == len(types)
            if lbad is None and not at_end and lexerr is None:
                raise RuntimeError('LR driver inconsistent')
            conflict_free = not (lalr.sr or lalr.rr_resolved)
            if conflict_free and lexerr is None and lbad != bad:
                raise RuntimeError('reference LR driver and reference Earley disagree on the first non-viable token of a conflict-free grammar:\n%s\n%r' % (gtext, w))
            _check_token_level(e, w, toks, lbad if (lbad is not None or at_end) else bad, lexerr, rt, gtext, ('lalr', lx), superset=False,
                               lalr=lalr, tops=tops, conflict_free=conflict_free)
            ctx.label('lalr:rejected-checked')
        # cyk
        p = parsers.get(('cyk', 'basic'))
        if p is not None:
            try:
                p.parse(w)
                raise Violation('cyk accepts an input outside the language', grammar=gtext, text=w)
            except (ParseError, UnexpectedCharacters):
                pass
            except Violation:
                raise
            except Exception as ex:
                raise Violation('cyk raised %s' % type(ex).__name__, grammar=gtext, text=w, error=str(ex)[:200])


def _must_reject(p, w, gtext, engine):
    try:
        p.parse(w)
    except UnexpectedInput as e:
        return e
    except Exception as ex:
        raise Violation('rejection raised %s, not an UnexpectedInput' % type(ex).__name__, grammar=gtext, text=w, engine=list(engine), error=str(ex)[:300])
    raise Violation('input outside the language is accepted', grammar=gtext, text=w, engine=list(engine))


def _check_token_level(e, w, toks, bad, lexerr, rt, gtext, engine, superset, lalr=None, tops=None, conflict_free=True):
    eng = list(engine)
    if bad is not None and bad < len(toks):
        tok = toks[bad]
        if not isinstance(e, UnexpectedToken):
            raise Violation('error is not UnexpectedToken', grammar=gtext, text=w, engine=eng, got=type(e).__name__, want_token_index=bad)
        if e.token.type == '$END' or e.token.start_pos != tok.start_pos:
            raise Violation('error token is not the first token that cannot extend the consumed prefix', grammar=gtext, text=w, engine=eng,
                            got=[e.token.type, e.token.start_pos], want=[tok.type, tok.start_pos])
        if (e.line, e.column) != coords.line_col(w, tok.start_pos):
            raise Violation('error line/column do not denote the error offset', grammar=gtext, text=w, engine=eng, got=[e.line, e.column])
        k = bad
    elif lexerr is not None:
        if not isinstance(e, UnexpectedCharacters) or e.pos_in_stream != lexerr:
            raise Violation('expected UnexpectedCharacters at the first character no terminal matches', grammar=gtext, text=w, engine=eng,
                            got=[type(e).__name__, getattr(e, 'pos_in_stream', None)], want=lexerr)
        if engine[0] == 'earley':
            # Earley with the basic lexer: the allowed set contains every terminal that can legally come next
            nxt = rt.expected(len(toks)) if rt.viable(len(toks)) else set()
            if not nxt <= set(e.allowed or ()):
                raise Violation('allowed set of the lexing error misses a terminal that can legally come next', grammar=gtext, text=w, engine=eng,
                                got=sorted(e.allowed or ()), want_superset_of=sorted(nxt), pos=lexerr)
        return
    else:
        # the whole token sequence is a proper prefix of a sentence
        if engine[0] == 'earley':
            if not isinstance(e, UnexpectedEOF):
                raise Violation('whole input is a viable prefix but the error is not UnexpectedEOF', grammar=gtext, text=w, engine=eng, got=type(e).__name__)
        else:
            if not (isinstance(e, UnexpectedToken) and e.token.type == '$END'):
                raise Violation('whole input is a viable prefix but the error is not an unexpected $END', grammar=gtext, text=w, engine=eng, got=type(e).__name__)
            if toks:
                last = toks[-1]
                if (e.token.start_pos, e.token.line, e.token.column) != (last.start_pos, last.line, last.column):
                    raise Violation('$END does not carry the coordinates of the last token', grammar=gtext, text=w, engine=eng,
                                    got=[e.token.start_pos, e.token.line, e.token.column], want=[last.start_pos, last.line, last.column])
        k = len(toks)
    nxt = rt.expected(k) if rt.viable(k) else set()
    exp = set(e.expected)
    if engine[0] == 'earley':
        if not nxt <= exp:
            raise Violation('expected set misses a terminal that can legally come next', grammar=gtext, text=w, engine=eng, got=sorted(exp), want_superset_of=sorted(nxt))
    else:
        if lalr is not None:
            prefix = [t.type for t in toks[:k]]
            for cand in sorted(set(e.expected)):
                if lalr.run(prefix + ([cand] if cand != '$END' else []), 'start')[0] == 'loop':
                    # accepts() feeds every candidate token to a copy of the parser: it would spin forever (same root cause)
                    raise Violation('LALR parser never returns: endless reduce loop (reached through accepts() of the error)', grammar=gtext, text=w,
                                    engine=eng, reduce_loop=True, candidate=cand)
        acs = set(e.accepts or ())
        legal = set(nxt)
        if k == len(toks) and rt.accepted(): legal.add('$END')
        if conflict_free and not (acs - {'$END'}) <= legal:
            raise Violation('accepts contains a terminal that cannot legally come next', grammar=gtext, text=w, engine=eng, accepts=sorted(acs), legal=sorted(legal))
        if not acs <= exp | {'$END'} and not acs <= exp:
            raise Violation('accepts is not a subset of expected', grammar=gtext, text=w, engine=eng, accepts=sorted(acs), expected=sorted(exp))
        if lalr is not None and tops is not None:
            # trial feeding on the reference driver: every member of accepts must be consumable there
            pass


def _known_lalr_loop(case, v):
    return bool(v.detail.get('reduce_loop'))


KNOWN = {'C08-lalr-endless-reduce-loop': _known_lalr_loop}


# hand-written grammars in which one sub-rule is reused in several nesting contexts, with many rejected inputs parsed on
# ONE instance: error-time information that wrongly depends on earlier errors (same LALR state, other stack) shows up here
NESTED = [
    ('start: value\n?value: list | tuple | N\nlist: "[" [value ("," value)*] "]"\ntuple: "(" [value ("," value)*] ")"\nN: "1"\n', '[](),1'),
    ('start: e\n?e: e "+" t | t\n?t: t "*" f | f\n?f: N | "(" e ")" | "[" e "]"\nN: "n"\n', 'n+*()[]'),
    ('start: stmt+\nstmt: "a" block | "b" ";"\nblock: "{" stmt* "}" | "(" stmt ")"\n', 'ab;{}()'),
]


@st.composite
def nested_cases(draw):
    g, alpha = draw(st.sampled_from(NESTED))
    texts = [''.join(draw(st.lists(st.sampled_from(alpha), min_size=1, max_size=7))) for _ in range(10)]
    return {'gtext': g, 'family': 'tok', 'texts': texts}


# ------------------------------------------------------------------ coverage-guided fuzzing (thorough tier)
def check_fuzz(case, ctx):
    """runs fuzz/c08_target.py (atheris/libFuzzer, coverage-guided over lark's code) in a subprocess for a fixed number of
    executions; any exception type other than the documented ones crashes the target and leaves the input behind"""
    import subprocess, tempfile, shutil, os, sys, base64, glob
    here = os.path.dirname(os.path.dirname(os.path.abspath(__file__)))
    d = tempfile.mkdtemp(prefix='c08fuzz-')
    try:
        corpus = os.path.join(d, 'corpus'); os.makedirs(corpus)
        saved = os.path.join(here, 'fuzz', 'corpus-' + case['target'])
        if os.path.isdir(saved):
            for fn in os.listdir(saved): shutil.copy(os.path.join(saved, fn), corpus)      # regression inputs are executed first
        cmd = [sys.executable, os.path.join(here, 'fuzz', 'c08_target.py'), case['target'], corpus, '-runs=%d' % case['runs'], '-seed=%d' % case['seed'],
               '-max_len=96', '-artifact_prefix=' + d + os.sep]
        r = subprocess.run(cmd, cwd=d, capture_output=True, text=True, timeout=3000)
        crashes = glob.glob(os.path.join(d, 'crash-*'))
        if 'No module named' in r.stderr and 'atheris' in r.stderr:
            if case['runs'] == 0:
                ctx.label('fuzz corpus replay skipped: atheris not installed'); return
            raise RuntimeError('atheris is not installed (setup_verif.py installs it into .deps)')
        if crashes or (r.returncode != 0 and 'Done' not in r.stderr):
            data = open(crashes[0], 'rb').read() if crashes else b''
            tail = r.stderr[-1500:]
            raise Violation('fuzz target %s: parse raised an exception that is not an UnexpectedInput' % case['target'], target=case['target'],
                            input_base64=base64.b64encode(data).decode(), input_repr=repr(data)[:300], stderr_tail=tail)
        ctx.label('fuzz:%s' % case['target'])
        if case['runs'] == 0: return
        ctx.evaluations += case['runs'] - 1
        ctx.nontrivial(['fuzz', case['target'], case['seed']], sample={'fuzz_target': case['target'], 'executions': case['runs'], 'libfuzzer_seed': case['seed']})
    finally:
        shutil.rmtree(d, ignore_errors=True)


def fuzz_cases(runs):
    def gen(shard, nshards):
        i = 0
        for target in ('json', 'calc', 'python', 'larkgrammar'):
            for k in range(4):
                i += 1
                if i % nshards == shard:
                    yield {'target': target, 'runs': runs, 'seed': 1 + k}
    return gen


def strat(o, fam, n, max_len):
    return gramgen.grammar_and_inputs(o, max_len=max_len, n=n, extra_chars='q' if fam == 'tok' else '').map(
        lambda c: {'g': c['g'], 'texts': c['texts'], 'family': fam})


def phases(tier):
    k = 12 if tier == 'thorough' else 1
    extra = [Phase('atheris-repository-grammars', 'enumerate', cases=fuzz_cases(60000), check=check_fuzz, case_limit=3600)] if tier == 'thorough' else []
    # quick tier: only the saved fuzz inputs are replayed (seconds)
    if tier != 'thorough':
        extra = [Phase('atheris-corpus-replay', 'enumerate', check=check_fuzz, case_limit=300,
                       cases=lambda shard, nshards: ([{'target': 'larkgrammar', 'runs': 0, 'seed': 1}] if shard == 0 else []))]
    return extra + [Phase('tok', 'hypothesis', strategy=strat(O_TOK, 'tok', 4, 10), max_examples=16000 * k),
            Phase('ovl', 'hypothesis', strategy=strat(O_OVL, 'ovl', 4, 10), max_examples=12000 * k),
            Phase('nested-one-instance-many-errors', 'hypothesis', strategy=nested_cases(), max_examples=4000 * k)]
