"""C05  Default ambiguity resolution is a priority-optimal, deterministic choice."""
import atexit
from hypothesis import strategies as st
from vlib.harness import Phase, Violation
from vlib import gram, gramgen, hsworker
from lark import Lark
from lark.exceptions import UnexpectedInput, GrammarError

ID = 'C05'
LEVEL = 'exploration'
RULE = ('generated acyclic ambiguous grammars with signed rule priorities (-3..3) on rules with 1-3 alternatives and terminal priorities '
        '(dynamic lexers) x inputs x priority in {normal, invert, None} x {basic, dynamic, dynamic_complete}; oracle = all derivations '
        'enumerated on the grammar AST with their total priority: the result must be one of them, and - for grammars without directly '
        'empty alternatives - one of optimal total (max / min under invert; under None equal to the result with all priorities '
        'erased). Determinism: each case is also parsed in 3 other processes with other PYTHONHASHSEEDs, on two instances, twice; all '
        'results must be identical. Non-trivial = input with >= 2 derivations whose total priorities differ; distinct = (grammar, '
        'mode, lexer, input)')
ASSUMPTIONS = ['grammars with a directly empty alternative get the soundness and determinism clauses only (the property makes no exact claim there)',
               'grammars where two alternatives expand to the same symbol sequence are discarded (merged by lark)',
               'trees compared by token type and value']

O_BASIC = gramgen.Opts(terms='tok', max_rules=4, shaping=True, priorities=True, ignore=True, acyclic=True)
O_NONNULL = gramgen.Opts(terms='tok', max_rules=4, shaping=True, priorities=True, ignore=True, acyclic=True, nonnull=True)
O_OVL = gramgen.Opts(terms='ovl', max_rules=3, shaping=False, priorities=True, term_prio=True, ignore=True, acyclic=True, nonnull=True)
MODE = {'basic': 'exact', 'dynamic': 'longest', 'dynamic_complete': 'exact'}
_pool = None


def pool(seed):
    global _pool
    if _pool is None:
        _pool = hsworker.Pool([1, 2, 3 + seed % 997])
        atexit.register(_pool.close)
    return _pool


def erase_priorities(g):
    import copy
    g2 = copy.deepcopy(g)
    for r in g2['rules']: r['prio'] = None
    for t in g2['terms']: t['prio'] = None
    return g2


def check(case, ctx):
    g = case['g']; prio_mode = case['priority']; fam = case['family']
    if gram.colliding_alternatives(g):
        ctx.discard('two alternatives of a rule expand to the same symbol sequence'); return
    gtext = gram.render_grammar(g)
    named = {t['name'] for t in g['terms']}
    info = gram.analyse(g)
    if info['cyclic']:
        raise RuntimeError('generator produced a cyclic grammar:\n' + gtext)
    conc = info['concrete']
    exact_class = not info['direct_empty']
    lexers = ('basic', 'dynamic') if fam == 'tok' else ('dynamic', 'dynamic_complete')
    parsers = {}
    for lx in lexers:
        try:
            parsers[lx] = Lark(gtext, parser='earley', lexer=lx, priority=prio_mode)
            if prio_mode is None:
                parsers[lx + '/erased'] = Lark(gram.render_grammar(erase_priorities(g)), parser='earley', lexer=lx)
        except GrammarError as e:
            if 'Rules defined twice' in str(e):
                ctx.discard('GrammarError: rules defined twice'); return
            raise Violation('construction raised GrammarError', grammar=gtext, error=str(e)[:300])
        except Exception as e:
            raise Violation('construction raised %s' % type(e).__name__, grammar=gtext, error=str(e)[:300])
    ctx.label('class:exact-optimum' if exact_class else 'class:has-directly-empty-alternative', 'priority:%s' % prio_mode)
    for w in case['texts']:
        for lx in lexers:
            p = parsers[lx]
            ref = gram.Ref(g, w, MODE[lx], concrete=conc, term_prio=(lx != 'basic'))
            if lx == 'dynamic' and ref.terms.engine_differs: continue
            if not ref.accepts():
                continue
            try:
                trees = ref.trees()
            except gram.TooMany:
                ctx.label('input:too-many-derivations (skipped)'); continue
            by = {}
            for t, prios in trees.items():
                k = gram.strip_pos(t)
                by[k] = by[k] | prios if k in by else prios
            try:
                res = p.parse(w)
            except UnexpectedInput:
                raise Violation('rejects an input that has a derivation', grammar=gtext, text=w, lexer=lx, priority=prio_mode)
            except Exception as e:
                raise Violation('parse raised %s' % type(e).__name__, grammar=gtext, text=w, lexer=lx, error=str(e)[:300])
            nt = gram.strip_pos(gram.norm_tree(res, named))
            if nt not in by:
                raise Violation('resolved tree is not a derivation of the input', grammar=gtext, text=w, lexer=lx, priority=prio_mode, got=gram.show(nt))
            allp = set().union(*by.values())
            if prio_mode is None:
                res2 = gram.strip_pos(gram.norm_tree(parsers[lx + '/erased'].parse(w), named))
                if res2 != nt:
                    raise Violation('priority=None: result differs from the same grammar without priorities', grammar=gtext, text=w, lexer=lx,
                                    got=gram.show(nt), without_priorities=gram.show(res2))
            elif exact_class:
                best = max(allp) if prio_mode == 'normal' else min(allp)
                mine = max(by[nt]) if prio_mode == 'normal' else min(by[nt])
                if mine != best:
                    raise Violation('resolved tree does not have optimal total priority', grammar=gtext, text=w, lexer=lx, priority=prio_mode,
                                    got=gram.show(nt), total_of_result=sorted(by[nt]), optimum=best, all_totals=sorted(allp),
                                    an_optimal_tree=[gram.show(t) for t, ps in by.items() if best in ps][:1])
            if len(allp) > 1:
                ctx.label('input:derivations with different totals')
                ctx.nontrivial([gtext, prio_mode, lx, w], sample={'grammar': gtext, 'text': w, 'lexer': lx, 'priority': prio_mode,
                                                                'totals': sorted(allp), 'result': gram.show(nt)})
            elif len(by) > 1:
                ctx.label('input:ambiguous, equal totals')
            # determinism on this instance
            again = gram.strip_pos(gram.norm_tree(p.parse(w), named))
            if again != nt:
                raise Violation('second parse on the same instance returns a different tree', grammar=gtext, text=w, lexer=lx, priority=prio_mode)
    if case.get('hashseeds'):
        for lx in lexers:
            ans = pool(ctx.seed).ask({'g': gtext, 'opts': {'parser': 'earley', 'lexer': lx, 'priority': prio_mode}, 'texts': case['texts'],
                                      'instances': 2, 'repeat': 2})
            mine = []
            for w in case['texts']:
                try:
                    mine.append(['ok', hsworker.norm(parsers[lx].parse(w))])
                except UnexpectedInput as e:
                    mine.append(['reject', type(e).__name__])
            for seed_, a in ans.items():
                if 'results' not in a:
                    raise Violation('construction differs under PYTHONHASHSEED=%s' % seed_, grammar=gtext, answer=a)
                for w, here, there in zip(case['texts'], mine, a['results']):
                    for r in there:
                        if r != _j(here):
                            raise Violation('result depends on process / hash seed / instance', grammar=gtext, text=w, lexer=lx, priority=prio_mode,
                                            hashseed=seed_, here=str(here)[:300], there=str(r)[:300])
            ctx.label('hashseed-determinism-checked')


# ------------------------------------------------------------------ the built-in precedence of non-empty over directly empty alternatives
# start: "(" r ")" where r has a directly empty alternative and one or two non-empty alternatives that can match the empty span as well
# (visible nodes n / m with priorities): wherever r spans nothing, the tree must still show a non-empty alternative -- whatever the
# priorities, the priority mode and the lexer.
E_FORMS = [('r: | n', ['n']), ('r: n |', ['n']), ('r: n?', ['n']), ('r: [n]', ['n']), ('r: | n | m', ['n', 'm']), ('r: n | m |', ['n', 'm']),
           ('r: | n x', ['n']), ('r: (n | )', ['n'])]
E_BODIES = ['A*', 'k*', 'A? A?', '[A]', 'k?']
E_TEXTS = ['()', '( )', '(a)', '( a a )', '(aa)']


def empty_cases(shard, nshards):
    i = 0
    for form, vis in E_FORMS:
        for body in E_BODIES:
            for pn in (None, -3, -1, 1, 2):
                for pm in ((None, -2, 3) if 'm' in vis else (None,)):
                    for pr in (None, -1, 2):
                        for mode in ('normal', 'invert', None):
                            i += 1
                            if i % nshards == shard:
                                yield {'form': form, 'visible': vis, 'body': body, 'pn': pn, 'pm': pm, 'pr': pr, 'priority': mode}


def check_empty(case, ctx):
    pr = lambda v: '' if v is None else '.%d' % v
    form = case['form']
    head, alts = form.split(':', 1)
    g = 'start: "(" r ")"\n%s%s:%s\n' % (head, pr(case['pr']), alts)
    g += 'n%s: %s\n' % (pr(case['pn']), case['body'])
    if 'm' in case['visible']: g += 'm%s: %s A?\n' % (pr(case['pm']), case['body'])
    if ' x' in form: g += 'x: A?\n'
    if 'k' in case['body']: g += 'k: A\n'
    g += 'A: "a"\n%ignore " "\n'
    for lx in ('basic', 'dynamic', 'dynamic_complete'):
        try:
            p = Lark(g, parser='earley', lexer=lx, priority=case['priority'])
        except GrammarError as e:
            if 'Rules defined twice' in str(e) or 'collision' in str(e).lower():
                ctx.discard('GrammarError: colliding alternatives'); return
            raise Violation('construction raised GrammarError', grammar=g, error=str(e)[:300])
        for w in E_TEXTS:
            try:
                t = p.parse(w)
            except UnexpectedInput:
                continue        # not every text is a sentence for every body; acceptance is C01's business
            r = t.children[0]
            kids = [c for c in r.children if c is not None]
            if not kids or not any(getattr(c, 'data', None) in case['visible'] for c in kids):
                raise Violation('directly empty alternative chosen although a non-empty alternative of the rule matches the same span', grammar=g, text=w,
                                lexer=lx, priority=case['priority'], got=str(t)[:300])
        ctx.label('empty-precedence:held')
    if case['pn'] is not None or case['pm'] is not None:
        ctx.nontrivial(['empty', g, case['priority']], sample={'grammar': g, 'priority': case['priority'], 'texts': E_TEXTS})


def _j(x):
    import json
    return json.loads(json.dumps(x))


def strat(o, fam, n, max_len, hashseeds):
    return st.tuples(gramgen.grammar_and_inputs(o, max_len=max_len, n=n), st.sampled_from(['normal', 'normal', 'invert', 'invert', None])).map(
        lambda t: {'g': t[0]['g'], 'texts': t[0]['texts'], 'priority': t[1], 'family': fam, 'hashseeds': hashseeds})


def phases(tier):
    k = 12 if tier == 'thorough' else 1
    return [Phase('tok', 'hypothesis', strategy=strat(O_BASIC, 'tok', 3, 8, False), max_examples=12000 * k),
            Phase('tok-nonnull', 'hypothesis', strategy=strat(O_NONNULL, 'tok', 3, 8, False), max_examples=16000 * k),
            Phase('ovl-termprio', 'hypothesis', strategy=strat(O_OVL, 'ovl', 3, 8, False), max_examples=12000 * k),
            Phase('empty-alternative-precedence', 'enumerate', cases=empty_cases, exhaustive=True, check=check_empty),
            Phase('hashseeds', 'hypothesis', strategy=strat(O_NONNULL, 'tok', 2, 7, True), max_examples=1600 * k)]
