"""C07  Lexer tiles the input by documented precedence; contextual refines basic."""
from hypothesis import strategies as st
from vlib.harness import Phase, Violation
from vlib import gram, reflex
from lark import Lark, Token, Tree
from lark.exceptions import UnexpectedCharacters, UnexpectedInput, GrammarError, LexError
import re

ID = 'C07'
LEVEL = 'exploration'
RULE = ('generated terminal sets of 2-8 colliding terminals (strings with optional i flag, regexps with several match lengths and '
        'flags, priorities -1..2; prefixes of each other, keyword vs identifier, same text with different flags) and sets of 101-160 '
        'single-character terminals, x inputs over their alphabet, str and bytes; pure lexing through Lark(parser=None, lexer="basic") '
        'with dont_ignore=True. Oracle: reference lexer implementing the documented order (priority, maximal width, pattern length, name) '
        'and the keyword rule; tiling and fullmatch invariants; error position = first position without match. Contextual clause: '
        'LALR statement grammars with keywords/identifiers (disjoint regexps): basic succeeds => contextual succeeds with equal tree. '
        'Non-trivial = input with a position where >= 2 terminals match; distinct = (terminal set, input)')
ASSUMPTIONS = ['maximal width is computed by the stdlib regex parser on an independent rendering of the terminal',
               'zero-width terminals and terminals colliding completely (same pattern, same flags) are not generated']

STRS = ['a', 'ab', 'abc', 'b', 'bc', 'if', 'i', 'f', 'x', 'xy', 'aa', 'IF', 'If']
RES = [r'[a-c]+', r'[a-z]+', r'a+', r'a*b', r'(ab)+', r'[ab]{1,2}', r'i?f', r'x|xy', r'xy|x', r'[^ ]', r'ab?c?', r'\w+', r'[a-c][a-z]*',
       r'[A-Z]+', r'if|ab', r'.', r'[a-z]{2}', r'\w']


@st.composite
def term_sets(draw):
    k = draw(st.integers(2, 8))
    out = []; used = set()
    for n in range(k):
        if draw(st.booleans()):
            v = draw(st.sampled_from(STRS)); fl = 'i' if draw(st.integers(0, 3)) == 0 else ''
            key = ('str', v, fl)
        else:
            v = draw(st.sampled_from(RES)); fl = draw(st.sampled_from(['', '', 'i', 's', 'is']))
            key = ('re', v, fl)
        if key in used: continue
        used.add(key)
        pr = draw(st.sampled_from([None, None, None, 1, -1, 2]))
        out.append({'name': 'T%d' % n, 'prio': pr, 'pat': {'kind': key[0], 'value': v, 'flags': fl}})
    ign = draw(st.booleans())
    if ign and ('str', ' ', '') not in used:
        out.append({'name': 'WS', 'prio': None, 'pat': {'kind': 'str', 'value': ' ', 'flags': ''}})
    texts = draw(st.lists(st.text(alphabet='abcifxyABIF ' + (' ' if ign else ''), max_size=9), min_size=4, max_size=4))
    return {'terms': out, 'ignore': ['WS'] if ign and out[-1]['name'] == 'WS' else [], 'texts': texts, 'bytes': draw(st.integers(0, 3)) == 0}


@st.composite
def big_sets(draw):
    n = draw(st.integers(101, 160))
    base = 0x100
    out = [{'name': 'T%d' % i, 'prio': None, 'pat': {'kind': 'str', 'value': chr(base + i), 'flags': ''}} for i in range(n)]
    # a few two-character terminals that start like single ones, and a regexp over the range
    extra = draw(st.integers(0, 3))
    for j in range(extra):
        a = draw(st.integers(0, n - 1)); b = draw(st.integers(0, n - 1))
        out.append({'name': 'D%d' % j, 'prio': draw(st.sampled_from([None, 1])), 'pat': {'kind': 'str', 'value': chr(base + a) + chr(base + b), 'flags': ''}})
    if draw(st.booleans()):
        out.append({'name': 'R', 'prio': draw(st.sampled_from([None, -1, 1])), 'pat': {'kind': 're', 'value': '[%s-%s]+' % (chr(base + 3), chr(base + 9)), 'flags': ''}})
    idx = st.integers(0, n + 3)
    texts = [''.join(chr(base + i) for i in draw(st.lists(idx, max_size=8))) for _ in range(3)]
    seen = set(); out2 = []
    for t in out:
        k = (t['pat']['kind'], t['pat']['value'])
        if k in seen: continue
        seen.add(k); out2.append(t)
    return {'terms': out2, 'ignore': [], 'texts': texts, 'bytes': False}


def gtext_of(terms, ignore):
    lines = []
    for t in terms:
        lines.append('%s%s: %s' % (t['name'], '.%d' % t['prio'] if t['prio'] is not None else '', gram.render_pat(t['pat'])))
    for i in ignore: lines.append('%ignore ' + i)
    return '\n'.join(lines) + '\n'


def check(case, ctx):
    terms = case['terms']; use_bytes = case['bytes']
    if len(terms) < 2: return
    g = gtext_of(terms, case['ignore'])
    try:
        p = Lark(g, parser=None, lexer='basic', use_bytes=use_bytes)
    except (GrammarError, LexError) as e:
        ctx.discard('construction: ' + str(e)[:40]); return
    except Exception as e:
        raise Violation('construction raised %s' % type(e).__name__, grammar=g, error=str(e)[:300])
    comp = {t['name']: re.compile(gram.pat_regex(t['pat'])) for t in terms}
    ctx.label('bytes' if use_bytes else 'str', 'terminals>100' if len(terms) > 100 else 'terminals<=8')
    for w in case['texts']:
        if use_bytes and any(ord(c) > 127 for c in w): continue
        exp, err = reflex.lex(terms, w)
        data = w.encode('ascii') if use_bytes else w
        try:
            got = []
            for t in p.lex(data, dont_ignore=True):
                v = t.value.decode('ascii') if use_bytes else str(t.value)
                got.append((t.type, v, t.start_pos))
            gerr = None
        except UnexpectedCharacters as e:
            gerr = e.pos_in_stream
        except Exception as e:
            raise Violation('lex raised %s' % type(e).__name__, grammar=g, text=w, error=str(e)[:300])
        collide = _collisions(comp, w)
        if collide:
            ctx.nontrivial([g, w, use_bytes], sample={'terminals': g, 'text': w, 'bytes': use_bytes, 'expected_tokens': exp[:6]})
        if err is not None or gerr is not None:
            ctx.label('input:lex-error')
            if err != gerr:
                raise Violation('error position differs from the first position where no terminal matches', grammar=g, text=w, bytes=use_bytes, got=gerr, want=err)
            continue
        if got != exp:
            raise Violation('token stream differs from the documented precedence', grammar=g, text=w, bytes=use_bytes, got=got, want=exp, stream_diff=True)
        # tiling invariants (on lark's own output)
        pos = 0
        for ty, v, sp in got:
            if sp != pos or not v or not comp[ty].fullmatch(v):
                raise Violation('tokens do not tile the input / do not match their terminal', grammar=g, text=w, token=[ty, v, sp])
            pos += len(v)
        if pos != len(w):
            raise Violation('tokens do not cover the input', grammar=g, text=w)
        # ignored ones dropped from the normal output
        plain = [(t.type, (t.value.decode('ascii') if use_bytes else str(t.value)), t.start_pos) for t in p.lex(data)]
        if plain != [x for x in exp if x[0] not in case['ignore']]:
            raise Violation('lex() without dont_ignore is not the token stream minus ignored terminals', grammar=g, text=w)
        ctx.label('input:lexed')


def _known_embedded_vs_flagged(case, v):
    # A string terminal S embedded in a same-priority regexp terminal (keyword rule) is consulted only after the regexp
    # matched; another string terminal with the same text but a flag the regexp lacks ("a"i) stays in the main scanner
    # and wins although S precedes it in the documented order.
    d = v.detail
    if not d.get('stream_diff'): return False
    by = {t['name']: t for t in case['terms']}
    for a, b in zip(d['got'], d['want']):
        if list(a) != list(b):
            g_, w_ = by.get(a[0]), by.get(b[0])
            if not g_ or not w_: return False
            if g_['pat']['kind'] != 'str' or w_['pat']['kind'] != 'str': return False
            if g_['pat']['value'].lower() != w_['pat']['value'].lower(): return False
            if (g_.get('prio') or 0) != (w_.get('prio') or 0): return False
            if not g_['pat']['flags'] or w_['pat']['flags'] == g_['pat']['flags']: return False
            # some same-priority regexp terminal embeds the expected winner
            import re as _re
            for r in case['terms']:
                if r['pat']['kind'] == 're' and (r.get('prio') or 0) == (w_.get('prio') or 0) and set(w_['pat']['flags']) <= set(r['pat']['flags']):
                    m = _re.compile(gram.pat_regex(r['pat'])).match(w_['pat']['value'])
                    if m and m.group(0) == w_['pat']['value']:
                        return True
            return False
    return False


KNOWN = {'C07-embedded-string-vs-flagged-twin': _known_embedded_vs_flagged}


def _collisions(comp, w):
    for pos in range(len(w)):
        k = 0
        for r in comp.values():
            m = r.match(w, pos)
            if m and m.end() > pos:
                k += 1
                if k >= 2: return True
    return False


# ---------------------------------------------------------------- contextual refines basic
KWS = ['if', 'in', 'else', 'x', 'ab', 'IF', '_1', '_2', '__']      # the last three: anonymous tokens whose derived names have no cased letter
SKELETONS = [
    'start: stmt+\nstmt: {K0} NAME ";" | {K1} NUM ";" | NAME "=" expr ";"\n?expr: NAME | NUM | expr "+" NAME\n',
    'start: ({K0} NAME | {K1} "(" start ")" | NUM)*\n',
    'start: item ("," item)*\n?item: {K0} | {K1} NAME | NAME ":" NUM | "[" start "]"\n',
    'start: decl*\ndecl: {K0} NAME [{K1} NUM] ";"\n    | NAME NAME ";"\n',
    # two parser states that accept the same named terminals and differ only in one keyword each
    'start: ("(" x | "[" y)*\nx: NAME | {K0} | NUM\ny: NAME | {K1} | NUM\n',
]


@st.composite
def ctx_cases(draw):
    sk = draw(st.sampled_from(SKELETONS))
    # two keywords that match the same text ("IF"i and "if") would be overlapping terminals: outside the clause
    k0, k1 = draw(st.lists(st.sampled_from(KWS), min_size=2, max_size=2, unique_by=lambda k: k.lower()))
    fl0 = 'i' if draw(st.integers(0, 3)) == 0 else ''
    named_kw = draw(st.booleans())
    name_re = draw(st.sampled_from([r'[a-z]+', r'[a-zA-Z]+', r'[a-z][a-z0-9]*' if False else r'[a-z]+']))
    if named_kw:
        g = sk.replace('{K0}', 'KW0').replace('{K1}', 'KW1') + 'KW0: "%s"%s\nKW1: "%s"\n' % (k0, fl0, k1)
    else:
        g = sk.replace('{K0}', '"%s"%s' % (k0, fl0)).replace('{K1}', '"%s"' % k1)
    prio = draw(st.sampled_from(['', '', '.1', '.-1']))
    g += 'NAME%s: /%s/\nNUM: /[0-9]+/\n%%ignore " "\n' % (prio, name_re)
    words = [k0, k1, k0.upper(), 'a', 'if', 'iff', 'xx', 'b', '1', '22', ';', '=', '+', ',', ':', '(', ')', '[', ']']
    names = ['a', 'iff', 'xx', 'b', k0 + 'q', 'q' + k1, k0.upper(), k0, k1, 'abc']
    stm = {0: ['K0 N ;', 'K1 D ;', 'N = N ;', 'N = D + N ;', 'N = N + N + N ;'], 1: ['K0 N', 'K1 ( K0 N )', 'D', 'K1 ( )'],
           2: ['K0', 'K1 N', 'N : D', '[ K0 , N : D ]'], 3: ['K0 N ;', 'K0 N K1 D ;', 'N N ;'],
           4: ['( N', '( K0', '[ N', '[ K1', '( D', '[ D']}[SKELETONS.index(sk)]
    sep = ' , ' if SKELETONS.index(sk) == 2 else ' '
    def sentence():
        parts = []
        for tpl in draw(st.lists(st.sampled_from(stm), min_size=1, max_size=3)):
            parts.append(' '.join({'K0': k0, 'K1': k1, 'N': draw(st.sampled_from(names)), 'D': draw(st.sampled_from(['1', '22']))}.get(x, x) for x in tpl.split()))
        return sep.join(parts)
    texts = [sentence() if draw(st.integers(0, 3)) else ' '.join(draw(st.lists(st.sampled_from(words), max_size=9))) for _ in range(5)]
    if draw(st.booleans()):
        texts = [t.replace(' ', '') if draw(st.booleans()) else t for t in texts]
    return {'g': g, 'texts': texts}


def norm(t):
    if isinstance(t, Tree): return ('N', str(t.data), tuple(norm(c) for c in t.children))
    if isinstance(t, Token): return ('T', t.type, str(t), t.start_pos, t.end_pos, t.line, t.column)
    return repr(t)


def check_ctx(case, ctx):
    g = case['g']
    try:
        pb = Lark(g, parser='lalr', lexer='basic')
        pc = Lark(g, parser='lalr', lexer='contextual')
    except GrammarError as e:
        ctx.discard('GrammarError: ' + str(e)[:40]); return
    for w in case['texts']:
        try:
            tb = pb.parse(w)
        except UnexpectedInput:
            ctx.label('ctx:basic-rejects'); continue
        try:
            tc = pc.parse(w)
        except UnexpectedInput as e:
            raise Violation('basic lexer parses but contextual lexer rejects', grammar=g, text=w, error=str(e)[:200])
        if norm(tb) != norm(tc):
            raise Violation('contextual lexer gives a different tree than the basic lexer', grammar=g, text=w, basic=str(norm(tb))[:300], contextual=str(norm(tc))[:300])
        ctx.label('ctx:agree')
        if any(k in w for k in ('if', 'in', 'else', 'ab', 'IF', '_1', '_2', '__')):
            ctx.nontrivial([g, w, 'ctx'], sample={'grammar': g, 'text': w, 'clause': 'contextual refines basic'})


def phases(tier):
    k = 12 if tier == 'thorough' else 1
    return [Phase('collisions', 'hypothesis', strategy=term_sets(), max_examples=40000 * k),
            Phase('many-terminals', 'hypothesis', strategy=big_sets(), max_examples=1600 * k),
            Phase('contextual', 'hypothesis', strategy=ctx_cases(), max_examples=12000 * k, check=check_ctx)]
