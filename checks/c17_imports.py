"""C17  Imports, overrides, extensions, templates mean what textual inlining means."""
import os, tempfile, shutil, atexit, copy
from hypothesis import strategies as st
from vlib.harness import Phase, Violation, blame_lark
from vlib import gram, gramgen
from lark import Lark, Tree, Token
from lark.exceptions import UnexpectedInput, GrammarError

ID = 'C17'
LEVEL = 'exploration'
RULE = ('a generated flat LALR grammar (all shaping features) is split at a random rule: the rules reachable from it go to a module file, '
        'the main file gets %import m (..) for the names it needs (optionally %import m.x -> y), the other module rules and terminals '
        'stay transitive dependencies; optionally %override / %extend of an imported rule, a local rule with the same name as a '
        'module-internal one, and a second nesting level (the module itself imports from a sub-module). Metamorphic oracle: the grammar '
        'written out by hand as the documentation describes it (dependencies named module__name, _module__name for underscore names, '
        'overrides replace, extensions append) must accept the same inputs and build the same trees. Template clause: a grammar using '
        'template instances vs the same grammar with each instance written out as an ordinary rule aliased to the template name. '
        'Non-trivial = split with >= 1 transitive (mangled) dependency or a same-named local definition, on an accepted input; distinct '
        '= (main text, module text, input)')
ASSUMPTIONS = ['alias names inside a module come out as module__alias in lark; the documentation does not say, so node names that are module aliases are compared modulo that prefix',
               'anonymous literals never spell a named terminal (their automatic names are then independent of the module)',
               '%ignore lives in the main grammar (ignore directives are not imported)']

_tmp = None
_n = [0]


def scratch():
    global _tmp
    if _tmp is None:
        _tmp = tempfile.mkdtemp(prefix='c17-')
        atexit.register(shutil.rmtree, _tmp, True)
    _n[0] += 1
    d = os.path.join(_tmp, 'd%d' % (_n[0] % 4))
    shutil.rmtree(d, ignore_errors=True); os.makedirs(d)
    return d


def refs(items, kind):
    for i in items:
        k = i[0]
        if k == kind: yield i[1]
        if k in ('grp', 'maybe'):
            for a in i[1]:
                for x in refs(a, kind): yield x
        elif k in ('opt', 'star', 'plus', 'rep'):
            for x in refs([i[1]], kind): yield x


def rename_items(items, rr, tr):
    out = []
    for i in items:
        k = i[0]
        if k == 'n': out.append(['n', rr.get(i[1], i[1])])
        elif k == 't': out.append(['t', tr.get(i[1], i[1])])
        elif k in ('grp', 'maybe'): out.append([k, [rename_items(a, rr, tr) for a in i[1]]])
        elif k in ('opt', 'star', 'plus'): out.append([k, rename_items([i[1]], rr, tr)[0]])
        elif k == 'rep': out.append(['rep', rename_items([i[1]], rr, tr)[0], i[2], i[3]])
        else: out.append(i)
    return out


def mangle(name, mod):
    return '_%s__%s' % (mod, name[1:]) if name.startswith('_') else '%s__%s' % (mod, name)


def build(case):
    """returns (main text, {module file: text}, flat text, set of module alias names) or None if the split is impossible"""
    g = case['g']
    rules = {r['name']: r for r in g['rules']}
    order = [r['name'] for r in g['rules']]
    if len(order) < 2: return None
    pivot = order[1 + case['pivot'] % (len(order) - 1)]
    # closure of the pivot
    C = set(); stack = [pivot]
    while stack:
        n = stack.pop()
        if n in C: continue
        C.add(n)
        for a in rules[n]['alts']: stack += list(refs(a['items'], 'n'))
    if 'start' in C: return None
    main_rules = [n for n in order if n not in C]
    explicit = {pivot}
    for n in main_rules:
        for a in rules[n]['alts']:
            explicit |= {x for x in refs(a['items'], 'n') if x in C}
    ignore = set(g.get('ignore', []))
    terms = {t['name']: t for t in g['terms']}
    tm = set(); tmain = set()
    for n in order:
        for a in rules[n]['alts']:
            (tm if n in C else tmain).update(refs(a['items'], 't'))
    shared = tm & tmain
    internal_terms = tm - tmain
    # ---- optional extras
    rename_to = 'imp_%s' % pivot.strip('_') if case['rename'] and not pivot.startswith('_') else None
    internal_rules = sorted(C - explicit)
    local_clash = internal_rules[case['clash'] % len(internal_rules)] if (case['clash'] is not None and internal_rules and tmain) else None
    ovr = sorted(explicit)[case['ovr_pick'] % len(explicit)] if case['ovr'] in ('override', 'extend') else None
    vis_terms = sorted((tmain | shared) - ignore)
    new_alt = None
    if ovr and vis_terms:
        new_alt = [['t', vis_terms[k % len(vis_terms)]] for k in case['ovr_items'][:2]] or [['t', vis_terms[0]]]
    else:
        ovr = None
    # ---- module text
    def render_rules(names, rr=None, tr=None, alias_prefix=''):
        out = []
        for n in names:
            r = copy.deepcopy(rules[n])
            if rr or tr or alias_prefix:
                r['name'] = (rr or {}).get(n, n)
                for a in r['alts']:
                    a['items'] = rename_items(a['items'], rr or {}, tr or {})
                    if a.get('alias') and alias_prefix: a['alias'] = alias_prefix + a['alias']
            out.append(r)
        return out
    def render_terms(names, tr=None):
        return [dict(terms[n], name=(tr or {}).get(n, n)) for n in names]
    mod_g = {'rules': render_rules([n for n in order if n in C]), 'terms': render_terms(sorted(tm)), 'ignore': []}
    files = {'m.lark': gram.render_grammar(mod_g)}
    # ---- main text
    main_g = {'rules': render_rules(main_rules, rr={pivot: rename_to} if rename_to else None), 'terms': render_terms(sorted((tmain - shared) | ignore)),
              'ignore': sorted(ignore)}
    imports = []
    for n in sorted(explicit | shared):
        if n == pivot and rename_to: imports.append('%%import m.%s -> %s' % (n, rename_to))
        else: imports.append('%%import m.%s' % n)
    extra_main = []
    flat_rules = []
    rr = {n: mangle(n, 'm') for n in internal_rules}
    if rename_to: rr[pivot] = rename_to
    # a terminal cannot be *written* as m__A (terminal names are upper-case in grammar source): the hand-written grammar
    # calls it M__A and token types are mapped when the trees are compared
    tr = {n: mangle(n, 'M') for n in internal_terms}
    if local_clash:
        lt = sorted(tmain - ignore)[0]
        extra_main.append('%s: %s %s' % (local_clash.lstrip('?!'), lt, lt))
        main_g['rules'][0]['alts'].append({'items': [['t', lt], ['n', local_clash], ['t', lt]], 'alias': None})
    main_text = gram.render_grammar(main_g) + '\n'.join(imports + extra_main) + '\n'
    # ---- flat text, written the way the documentation describes the result
    flat_g = {'rules': copy.deepcopy(main_g['rules']) + render_rules([n for n in order if n in C], rr=rr, tr=tr, alias_prefix=case['alias_prefix']),
              'terms': render_terms(sorted((tmain | shared | ignore))) + render_terms(sorted(internal_terms), tr=tr), 'ignore': sorted(ignore)}
    flat_text = gram.render_grammar(flat_g) + '\n'.join(extra_main) + '\n'
    if ovr:
        name_in_main = rename_to if (ovr == pivot and rename_to) else ovr
        r = rules[ovr]
        hdr = r.get('mod', '') + name_in_main
        alt_txt = gram.render_seq(new_alt)
        if case['ovr'] == 'override':
            main_text += '%%override %s: %s\n' % (hdr, alt_txt)
            fr = [x for x in flat_g['rules'] if x['name'] == name_in_main][0]
            fr['alts'] = [{'items': new_alt, 'alias': None}]
        else:
            main_text += '%%extend %s: %s\n' % (hdr, alt_txt)
            fr = [x for x in flat_g['rules'] if x['name'] == name_in_main][0]
            if any(gram.render_seq(a['items']) == alt_txt and not a.get('alias') for a in fr['alts']): return None
            fr['alts'].append({'items': new_alt, 'alias': None})
        flat_text = gram.render_grammar(flat_g) + '\n'.join(extra_main) + '\n'
    mod_aliases = {a['alias'] for n in C for a in rules[n]['alts'] if a.get('alias')}
    info = {'mangled': len(internal_rules) + len(internal_terms), 'clash': bool(local_clash), 'ovr': case['ovr'] if ovr else None, 'rename': bool(rename_to)}
    return main_text, files, flat_text, mod_aliases, info


def norm(t, mod_aliases):
    if isinstance(t, Tree):
        name = str(t.data)
        if name.startswith('m__') and name[3:] in mod_aliases: name = name[3:]
        return ('N', name, tuple(norm(c, mod_aliases) for c in t.children))
    if isinstance(t, Token):
        ty = t.type
        if ty.startswith('M__'): ty = 'm__' + ty[3:]
        elif ty.startswith('_M__'): ty = '_m__' + ty[4:]
        return ('T', ty, str(t))
    return repr(t)


@blame_lark
def check(case, ctx):
    built = build(case)
    if built is None:
        ctx.discard('split impossible (closure contains start / duplicate extension)'); return
    main_text, files, flat_text, mod_aliases, info = built
    d = scratch()
    for fn, txt in files.items():
        with open(os.path.join(d, fn), 'w') as f: f.write(txt)
    try:
        flat = Lark(flat_text, parser='lalr', keep_all_tokens=bool(case.get('kat')), maybe_placeholders=case.get('mp', True))
    except GrammarError:
        ctx.discard('flat grammar is not LALR / collides'); return
    try:
        modular = Lark(main_text, parser='lalr', import_paths=[d], keep_all_tokens=bool(case.get('kat')), maybe_placeholders=case.get('mp', True))
    except GrammarError as e:
        raise Violation('modular grammar raises GrammarError although the hand-inlined grammar builds', main=main_text, module=files['m.lark'], flat=flat_text, error=str(e)[:300])
    for w in case['texts']:
        try:
            a = ('ok', norm(flat.parse(w), mod_aliases))
        except UnexpectedInput as e:
            a = ('err', type(e).__name__)
        try:
            b = ('ok', norm(modular.parse(w), mod_aliases))
        except UnexpectedInput as e:
            b = ('err', type(e).__name__)
        if a != b:
            raise Violation('modular grammar behaves differently from the grammar written out by hand', main=main_text, module=files['m.lark'], flat=flat_text,
                            text=w, flat_result=str(a)[:400], modular_result=str(b)[:400])
        ctx.label('agree:' + a[0])
        if a[0] == 'ok' and (info['mangled'] or info['clash']):
            ctx.nontrivial([main_text, files['m.lark'], w], sample={'main': main_text, 'module': files['m.lark'], 'flat': flat_text, 'text': w, 'info': info})
    for k, v in info.items():
        if v: ctx.label('%s:%s' % (k, v if not isinstance(v, bool) else 'yes'))


# ------------------------------------------------------------------ template clause
@blame_lark
def check_templates(case, ctx):
    """grammar with template instances vs the instances written out as ordinary rules aliased to the template name"""
    g = case['g']
    tmpls = [r for r in g['rules'] if r.get('params')]
    if not tmpls:
        ctx.discard('no template'); return
    conc = gram.Concrete(g)
    # write every instance out by hand
    flat_rules = []
    names = {}
    for key, r in conc.rules.items():
        if '{' in key:
            names[key] = ('_' if r['display'].startswith('_') else '') + 'inst%d' % len(names)
    def ren(items):
        out = []
        for i in items:
            k = i[0]
            if k == 'n': out.append(['n', names.get(i[1], i[1])])
            elif k in ('grp', 'maybe'): out.append([k, [ren(a) for a in i[1]]])
            elif k in ('opt', 'star', 'plus'): out.append([k, ren([i[1]])[0]])
            elif k == 'rep': out.append(['rep', ren([i[1]])[0], i[2], i[3]])
            else: out.append(i)
        return out
    for key, r in conc.rules.items():
        inst = '{' in key
        mod = ('?' if r['expand1'] else '') + ('!' if r['keep'] else '')
        alts = []
        for a in r['alts']:
            alias = a.get('alias')
            if inst and not r['inline'] and not alias: alias = r['display']
            alts.append({'items': ren(a['items']), 'alias': alias})
        flat_rules.append({'name': names.get(key, key), 'mod': mod, 'prio': r['prio'], 'params': [], 'alts': alts})
    flat_g = {'rules': flat_rules, 'terms': g['terms'], 'ignore': g.get('ignore', [])}
    if any(r['expand1'] and '{' in k and not r['inline'] for k, r in conc.rules.items()):
        ctx.discard('?template: a collapsing instance cannot be written with an alias'); return
    gt = gram.render_grammar(g); ft = gram.render_grammar(flat_g)
    try:
        pf = Lark(ft, parser='lalr')
    except GrammarError:
        ctx.discard('written-out grammar is not LALR / collides'); return
    try:
        pt = Lark(gt, parser='lalr')
    except GrammarError as e:
        raise Violation('grammar with templates raises GrammarError although the written-out grammar builds', grammar=gt, written_out=ft, error=str(e)[:300])
    for w in case['texts']:
        res = []
        for p in (pf, pt):
            try: res.append(('ok', norm(p.parse(w), set())))
            except UnexpectedInput as e: res.append(('err', type(e).__name__))
        if res[0] != res[1]:
            raise Violation('template instantiation differs from writing the instance out by hand', grammar=gt, written_out=ft, text=w,
                            written_out_result=str(res[0])[:400], template_result=str(res[1])[:400])
        ctx.label('tmpl-agree:' + res[0][0])
        if res[0][0] == 'ok':
            ctx.nontrivial([gt, w, 'tmpl'], sample={'grammar': gt, 'written_out': ft, 'text': w})


# ------------------------------------------------------------------ templates carrying modifiers and a priority, written out by hand
T_ABODY = ['A', 'A B', 'A A', 'B', 'A B?', 'A | B']
T_TBODY = ['x', 'x B', 'x x', 'x B?', 'A x', 'x | x B']
T_TEXTS = [''.join(t) for n in range(0, 4) for t in __import__('itertools').product('ab', repeat=n)]


def _pr(p): return '' if p is None else '.%d' % p


@blame_lark
def check_template_priority(case, ctx):
    """'tp{x}.P: body' must mean what 'inst.P: body[x:=ARG] -> tp' means: same LALR conflict resolution (or the same GrammarError), and
    the same Earley choice whenever the priorities of the competing rules differ"""
    arg = case['arg']; p1 = case['p1']; p2 = case['p2']; mod = case['mod']
    tb = case['tbody']; ab = case['abody']
    head = 'start: %s | alt\nalt%s: %s\n' % ('%s', _pr(p1), ab)
    terms = 'A: "a"\nB: "b"\n'
    gt = head % ('tp{%s}' % arg) + '%stp{x}%s: %s\n' % (mod, _pr(p2), tb) + terms
    flat_body = ' | '.join('%s -> tp' % alt.strip().replace('x', arg) for alt in tb.split('|'))
    gf = head % 'inst' + '%sinst%s: %s\n' % (mod, _pr(p2), flat_body) + terms
    for parser, kw in (('lalr', {}), ('earley', {}), ('earley', {'priority': 'invert'})):
        built = []
        for text in (gf, gt):
            try: built.append(Lark(text, parser=parser, **kw))
            except GrammarError as e: built.append(('GrammarError', str(e)[:200]))
        if isinstance(built[0], tuple) != isinstance(built[1], tuple):
            raise Violation('template grammar and written-out grammar do not build alike', engine=[parser, kw], grammar=gt, written_out=gf,
                            written_out_result=str(built[0])[:300], template_result=str(built[1])[:300])
        if isinstance(built[0], tuple):
            ctx.label('tmpl-prio:both-GrammarError'); continue
        decided = (p1 or 0) != (p2 or 0)
        for w in T_TEXTS:
            res = []
            for p in built:
                try: res.append(('ok', norm(p.parse(w), set())))
                except UnexpectedInput as e: res.append(('err', type(e).__name__))
            if res[0][0] != res[1][0] or (res[0] != res[1] and (parser == 'lalr' or decided)):
                raise Violation('template with modifiers/priority differs from writing the instance out by hand', engine=[parser, kw], grammar=gt,
                                written_out=gf, text=w, written_out_result=str(res[0])[:400], template_result=str(res[1])[:400])
        ctx.label('tmpl-prio:agree')
        if decided:
            ctx.nontrivial([gt, parser, str(kw)], sample={'grammar': gt, 'written_out': gf, 'engine': [parser, kw]})


@st.composite
def template_priority_cases(draw):
    pr = st.sampled_from([None, None, -2, -1, 1, 2, 3])
    return {'arg': draw(st.sampled_from(['A', 'B'])), 'p1': draw(pr), 'p2': draw(pr), 'mod': draw(st.sampled_from(['', '', '!'])),     # a collapsing ?instance cannot be written with an alias
            'tbody': draw(st.sampled_from(T_TBODY)), 'abody': draw(st.sampled_from(T_ABODY))}


# ------------------------------------------------------------------ imported templates next to same-named local rules
MOD_TP = 'row: sep{CELL, ","} | t2{CELL}\nsep{x, s}: x (s x)*\nt2{y}: "<" y ">" | "<" sep{y, "."} ">"\nCELL: /[a-z]/\n'
LOCAL_BODIES = {'x': '"!"', 's': '"?" "?"', 'y': '"#"', 'sep': '"~"', 't2': '"^"'}


@blame_lark
def check_import_template(case, ctx):
    """a module whose imported rule depends on private templates; the importing grammar has rules named like those templates and like their
    parameters.  Written out by hand: everything private gets the module prefix, parameters included"""
    loc = [n for n in sorted(LOCAL_BODIES) if n in case['locals']]
    use = (' (' + ' | '.join(loc) + ')*') if loc else ''
    local_rules = ''.join('%s: %s\n' % (n, LOCAL_BODIES[n]) for n in loc)
    imp = '%import m.row\n' if case['style'] == 0 else '%import m (row, CELL)\n'
    main = imp + 'start: row (";" row)*' + use + '\n' + local_rules + '%ignore " "\n'
    flat = ('start: row (";" row)*' + use + '\n' + local_rules +
            'row: m__sep{M__CELL, ","} | m__t2{M__CELL}\nm__sep{m__x, m__s}: m__x (m__s m__x)*\n'
            'm__t2{m__y}: "<" m__y ">" | "<" m__sep{m__y, "."} ">"\nM__CELL: /[a-z]/\n%ignore " "\n')
    if case['style'] == 1: flat = flat.replace('M__CELL', 'CELL')
    d = scratch()
    with open(os.path.join(d, 'm.lark'), 'w') as f: f.write(MOD_TP)
    for parser in ('lalr', 'earley'):
        pf = Lark(flat, parser=parser)
        try:
            pm = Lark(main, parser=parser, import_paths=[d])
        except GrammarError as e:
            raise Violation('grammar importing a rule that depends on private templates raises GrammarError; the written-out grammar builds', main=main, module=MOD_TP,
                            flat=flat, engine=parser, error=str(e)[:300])
        for w in case['texts']:
            res = []
            for p in (pf, pm):
                # nodes made by a private template keep the template's plain name ('sep', not 'm__sep'); like alias names of a module
                # they are compared modulo the prefix (documentation silent)
                try: res.append(('ok', norm(p.parse(w), {'sep', 't2'})))
                except UnexpectedInput as e: res.append(('err', type(e).__name__))
            if res[0] != res[1]:
                raise Violation('imported templates behave differently from the grammar written out by hand', main=main, module=MOD_TP, flat=flat, engine=parser, text=w,
                                written_out_result=str(res[0])[:400], import_result=str(res[1])[:400])
            ctx.label('import-template:agree:' + res[0][0])
    if loc:
        ctx.nontrivial(['import-template', main, case['texts']], sample={'main': main, 'module': MOD_TP, 'flat': flat, 'texts': case['texts'][:3]})


@st.composite
def import_template_cases(draw):
    words = ['a', 'b', ',', ';', '<', '>', '.', '!', '?', '#', '~', '^', ' ', 'a,b', '<a>', '<a.b>', 'a;b', '<a>;b,c']
    return {'locals': draw(st.lists(st.sampled_from(sorted(LOCAL_BODIES)), max_size=3, unique=True)), 'style': draw(st.integers(0, 1)),
            'texts': [''.join(draw(st.lists(st.sampled_from(words), min_size=1, max_size=6))) for _ in range(5)]}


# ------------------------------------------------------------------ terminals built from other terminals, extended/overridden after import
MOD_T = 'num: NUMBER\nNUMBER: DIGIT+\nDIGIT: "1" | "2"\nWORD: LETTER (LETTER | DIGIT)*\nLETTER: "a" | "b"\nPAIR: LETTER DIGIT\n'


@st.composite
def terminal_cases(draw):
    base = draw(st.sampled_from(['DIGIT', 'LETTER']))
    op = draw(st.sampled_from(['extend', 'extend', 'override', None]))
    newc = draw(st.sampled_from(['f', 'g', '3']))
    composites = draw(st.lists(st.sampled_from(['NUMBER', 'WORD', 'PAIR']), min_size=1, max_size=3, unique=True))
    use_rule = draw(st.booleans())
    texts = [''.join(draw(st.lists(st.sampled_from(['1', '2', 'a', 'b', newc, ' ', '12', 'a1', 'b' + newc]), max_size=6))) for _ in range(6)]
    return {'base': base, 'op': op, 'newc': newc, 'composites': composites, 'use_rule': use_rule, 'texts': texts}


@blame_lark
def check_terminals(case, ctx):
    base, op, newc = case['base'], case['op'], case['newc']
    comps = sorted(case['composites'])
    imports = sorted(set(comps + ['DIGIT', 'LETTER'] + (['NUMBER'] if case['use_rule'] else [])))
    items = comps + (['num'] if case['use_rule'] else [])
    main = 'start: (%s)+\n%%import m (%s)\n%%ignore " "\n' % (' | '.join(items), ', '.join(imports + (['num'] if case['use_rule'] else [])))
    defs = {'DIGIT': ['"1"', '"2"'], 'LETTER': ['"a"', '"b"']}
    if op == 'extend':
        main += '%%extend %s: "%s"\n' % (base, newc); defs[base] = defs[base] + ['"%s"' % newc]
    elif op == 'override':
        main += '%%override %s: "%s"\n' % (base, newc); defs[base] = ['"%s"' % newc]
    flat = 'start: (%s)+\n' % ' | '.join(items)
    if case['use_rule']: flat += 'num: NUMBER\n'
    body = {'NUMBER': 'DIGIT+', 'WORD': 'LETTER (LETTER | DIGIT)*', 'PAIR': 'LETTER DIGIT'}
    need = set(comps) | ({'NUMBER'} if case['use_rule'] else set())
    for c in sorted(need): flat += '%s: %s\n' % (c, body[c])
    flat += 'DIGIT: %s\nLETTER: %s\n%%ignore " "\n' % (' | '.join(defs['DIGIT']), ' | '.join(defs['LETTER']))
    d = scratch()
    with open(os.path.join(d, 'm.lark'), 'w') as f: f.write(MOD_T)
    for parser, lexer in (('lalr', 'contextual'), ('lalr', 'basic'), ('earley', 'dynamic')):
        try:
            pf = Lark(flat, parser=parser, lexer=lexer)
        except GrammarError:
            ctx.discard('flat grammar rejected'); return
        try:
            pm = Lark(main, parser=parser, lexer=lexer, import_paths=[d])
        except GrammarError as e:
            raise Violation('modular grammar raises GrammarError although the hand-inlined grammar builds', main=main, module=MOD_T, flat=flat, error=str(e)[:300])
        for w in case['texts']:
            res = []
            for p in (pf, pm):
                try: res.append(('ok', norm(p.parse(w), set())))
                except UnexpectedInput as e: res.append(('err', type(e).__name__))
            if res[0] != res[1]:
                raise Violation('imported terminal built from an extended/overridden terminal differs from the hand-inlined grammar', main=main, module=MOD_T,
                                flat=flat, text=w, engine=[parser, lexer], flat_result=str(res[0])[:300], modular_result=str(res[1])[:300])
            ctx.label('terminals-agree:' + res[0][0])
            if res[0][0] == 'ok' and op and newc in w:
                ctx.nontrivial([main, w, parser, lexer], sample={'main': main, 'module': MOD_T, 'flat': flat, 'text': w})


O = gramgen.Opts(terms='tok', max_rules=5, shaping=True, templates=False, ignore=True, acyclic=True, distinct_anon=True, unique_aliases=True)
O_T = gramgen.Opts(terms='tok', max_rules=4, shaping=True, templates=True, lit_tmpl_args=True, ignore=True, acyclic=True, distinct_anon=True, unique_aliases=True)


@st.composite
def split_cases(draw):
    gi = draw(gramgen.grammar_and_inputs(O, max_len=10, n=5))
    return {'g': gi['g'], 'texts': gi['texts'], 'pivot': draw(st.integers(0, 7)), 'rename': draw(st.integers(0, 3)) == 0,
            'clash': draw(st.one_of(st.none(), st.integers(0, 5))), 'ovr': draw(st.sampled_from([None, None, 'override', 'extend'])),
            'ovr_pick': draw(st.integers(0, 5)), 'ovr_items': draw(st.lists(st.integers(0, 5), min_size=1, max_size=2)), 'alias_prefix': 'm__',
            # global options must reach imported definitions as well
            'kat': draw(st.integers(0, 2)) == 0, 'mp': draw(st.integers(0, 3)) != 0}


@st.composite
def template_cases(draw):
    gi = draw(gramgen.grammar_and_inputs(O_T, max_len=10, n=5))
    return {'g': gi['g'], 'texts': gi['texts']}


def phases(tier):
    k = 12 if tier == 'thorough' else 1
    return [Phase('split-into-modules', 'hypothesis', strategy=split_cases(), max_examples=12000 * k),
            Phase('templates-written-out', 'hypothesis', strategy=template_cases(), max_examples=12000 * k, check=check_templates),
            Phase('templates-with-priority-written-out', 'hypothesis', strategy=template_priority_cases(), max_examples=3000 * k, check=check_template_priority),
            Phase('imported-templates-and-local-names', 'hypothesis', strategy=import_template_cases(), max_examples=1500 * k, check=check_import_template),
            Phase('composite-terminals-extend-override', 'hypothesis', strategy=terminal_cases(), max_examples=3000 * k, check=check_terminals)]
