"""C02  LALR(1): conflicts reported, accepted language sound and (conflict-free) exact, next-token sets."""
from hypothesis import strategies as st
from vlib.harness import Phase, Violation
from vlib import gram, gramgen, reflalr
from lark import Lark, Token
from lark.exceptions import UnexpectedInput, GrammarError
from lark.parsers.lalr_analysis import Shift, Reduce

ID = 'C02'
LEVEL = 'exploration'
RULE = ('generated BNF/EBNF grammars with rule priorities over prefix-free string terminals (so LALR conflicts, nullable suffixes and '
        'shared cores occur) x 4 token strings x {basic, contextual}; oracle = canonical LR(1) item sets merged by core (the definition '
        'of LALR(1)) built from scratch on the same BNF, its conflict list, its action table, an LR driver on it, and the independent '
        'CFG recogniser. Non-trivial = grammar for which the reference finds a conflict (either kind) or a state whose reduce '
        'look-ahead set is a proper subset of FOLLOW (i.e. LALR is more precise than SLR there); distinct = distinct grammar text')
ASSUMPTIONS = ['completeness (every sentence accepted) is demanded only when the reference finds no conflict at all: a reduce/reduce conflict '
               'resolved by a strict priority winner shrinks the language exactly like a shift/reduce conflict resolved as shift',
               'the BNF handed to the reference construction is lark\'s own Lark.rules (EBNF expansion is decided by C03/C09)',
               'table equality is checked on reduced grammars (all rules productive and reachable) - guaranteed by the generator',
               'token types for the reference LR driver are taken from the basic lexer on prefix-free fixed strings']

OPTS = gramgen.Opts(terms='tok', max_rules=5, priorities=True, ignore=True, max_alts=3, max_items=3, depth=1)
OPTS_BNF = gramgen.Opts(terms='tok', max_rules=5, priorities=True, ignore=False, max_alts=3, max_items=3, depth=0)


def follow_sets(ref):
    fol = {n: set() for n in ref.nts}
    ch = True
    while ch:
        ch = False
        for l, rhs, _p, _t in ref.R:
            for k, s in enumerate(rhs):
                if s in ref.nts:
                    f = ref.first_seq(rhs[k + 1:], None)
                    add = {x for x in f if x is not None}
                    if None in f: add |= fol[l]
                    if not add <= fol[s]:
                        fol[s] |= add; ch = True
    return fol


def lark_table(p, ref):
    idx = {(r[0], r[1]): i for i, r in enumerate(ref.R)}
    def rid(rule): return idx[(rule.origin.name, tuple(s.name for s in rule.expansion))]
    def conv(st_): return frozenset((rid(rp.rule), rp.index) for rp in st_)
    pt = p.parser.parser._parse_table
    out = {}
    for st_, row in pt.states.items():
        r2 = {}
        for sym, (act, arg) in row.items():
            r2[sym] = ('S', conv(arg)) if act is Shift else ('R', rid(arg))
        out[conv(st_)] = r2
    return out


def check(case, ctx):
    g = case['g']
    gtext = gram.render_grammar(g)
    info = gram.analyse(g)
    conc = info['concrete']
    cyclic = info['cyclic']
    try:
        e = Lark(gtext, parser='earley', lexer='basic')
    except GrammarError as ex:
        if 'Rules defined twice' in str(ex):
            ctx.discard('GrammarError: rules defined twice (colliding optionals)'); return
        raise Violation('unexpected GrammarError', grammar=gtext, error=str(ex)[:300])
    ref = reflalr.RefLALR(reflalr.from_lark(e.rules), ['start'])
    if not ref.productive():
        raise RuntimeError('generator produced a non-productive grammar:\n' + gtext)
    # ---- 1. conflict report
    err = None
    parsers = {}
    for lx in ('basic', 'contextual'):
        try:
            parsers[lx] = Lark(gtext, parser='lalr', lexer=lx, debug=(lx == 'basic'))
        except GrammarError as ex:
            err = str(ex)
            if 'Reduce/Reduce' not in err:
                raise Violation('LALR construction raised an unexpected GrammarError', grammar=gtext, error=err[:400])
        except Exception as ex:
            raise Violation('LALR construction raised %s' % type(ex).__name__, grammar=gtext, error=str(ex)[:300])
    if (err is not None) != bool(ref.rr):
        def desc(c, la, rs): return {'lookahead': la, 'rules': ['%s: %s' % (ref.R[i][0], ' '.join(ref.R[i][1])) for i in rs]}
        raise Violation('Reduce/Reduce report differs from the LALR(1) automaton: lark %s, reference finds %d conflict(s)'
                        % ('raises' if err else 'builds', len(ref.rr)), grammar=gtext, lark_error=(err or '')[:600],
                        reference_conflicts=[desc(*x) for x in ref.rr[:3]])
    fol = follow_sets(ref)
    precise = any(las < fol[ref.R[ri][0]] for c, d in ref.lookaheads.items() for ri, las in d.items())
    if ref.rr or ref.sr or precise:
        ctx.nontrivial(gtext, sample={'grammar': gtext, 'reduce_reduce': len(ref.rr), 'shift_reduce': len(ref.sr),
                                      'lr1_states': ref.n_lr1_states, 'lalr_states': len(ref.table), 'texts': case['texts']})
    ctx.label('rr-conflict' if ref.rr else ('sr-conflict' if ref.sr else ('rr-resolved-by-priority' if ref.rr_resolved else 'conflict-free')))
    if precise: ctx.label('lookahead<FOLLOW somewhere')
    if ref.n_lr1_states > len(ref.table): ctx.label('lr1 states merged')
    if err is not None:
        return
    # ---- 2. tables
    lt = lark_table(parsers['basic'], ref)
    if set(lt) != set(ref.table):
        raise Violation('set of LALR states differs from the reference', grammar=gtext, lark_states=len(lt), ref_states=len(ref.table))
    for c in lt:
        a = lt[c]; b = ref.table[c]
        if a != b:
            def sh(v):
                if v is None: return None
                return 'shift' if v[0] == 'S' else 'reduce %s: %s' % (ref.R[v[1]][0], ' '.join(ref.R[v[1]][1]))
            diff = {k: {'lark': sh(a.get(k)), 'reference': sh(b.get(k))} for k in set(a) | set(b) if a.get(k) != b.get(k)}
            kernel = ['%s: %s . %s' % (ref.R[ri][0], ' '.join(ref.R[ri][1][:dot]), ' '.join(ref.R[ri][1][dot:])) for ri, dot in sorted(c) if dot > 0 or ri < ref.nroots]
            raise Violation('LALR action table row differs from the LALR(1) automaton', grammar=gtext, state_kernel=kernel, differences=diff)
    # ---- 2b. the same grammar with a second start symbol: one automaton for both, same conflict report and same rows
    others = [r['name'] for r in g['rules'] if not r.get('params') and r['name'] != 'start' and not r['name'].startswith('_')]
    if others:
        starts = ['start', others[len(gtext) % len(others)]]
        ref2 = reflalr.RefLALR(reflalr.from_lark(Lark(gtext, parser='earley', lexer='basic', start=starts).rules), starts)
        err2 = None; p2 = None
        try:
            p2 = Lark(gtext, parser='lalr', lexer='basic', start=starts, debug=True)
        except GrammarError as ex:
            err2 = str(ex)
            if 'Reduce/Reduce' not in err2:
                raise Violation('LALR construction with two start symbols raised an unexpected GrammarError', grammar=gtext, start=starts, error=err2[:400])
        if (err2 is not None) != bool(ref2.rr):
            raise Violation('two start symbols: Reduce/Reduce report differs from the LALR(1) automaton: lark %s, reference finds %d conflict(s)'
                            % ('raises' if err2 else 'builds', len(ref2.rr)), grammar=gtext, start=starts, lark_error=(err2 or '')[:600])
        if p2 is not None:
            lt2 = lark_table(p2, ref2)
            if set(lt2) != set(ref2.table):
                raise Violation('two start symbols: set of LALR states differs from the reference', grammar=gtext, start=starts, lark_states=len(lt2), ref_states=len(ref2.table))
            for c in lt2:
                if lt2[c] != ref2.table[c]:
                    diff = sorted(k for k in set(lt2[c]) | set(ref2.table[c]) if lt2[c].get(k) != ref2.table[c].get(k))
                    kernel = ['%s: %s . %s' % (ref2.R[ri][0], ' '.join(ref2.R[ri][1][:dot]), ' '.join(ref2.R[ri][1][dot:])) for ri, dot in sorted(c) if dot > 0 or ri < ref2.nroots]
                    raise Violation('two start symbols: LALR action table row differs from the LALR(1) automaton', grammar=gtext, start=starts, state_kernel=kernel, lookaheads_that_differ=diff)
            ctx.label('two-starts:tables-agree')
    # ---- 3. language  4. next-token sets
    for w in case['texts']:
        in_lang = gram.Ref(g, w, 'exact', concrete=conc).accepts()
        toks = []; lex_ok = True
        try:
            for t in e.lex(w): toks.append(t.type)
        except UnexpectedInput:
            lex_ok = False
        loops = ref.run(toks, 'start')[0] == 'loop'
        if loops:
            # lark's driver would spin forever as well (same table); that hang is reported under C08, here the input is skipped
            ctx.label('reference LR driver spins in a reduce loop: cyclic / hidden-left-recursive grammar with resolved conflicts (input skipped; see C08 finding)')
            continue
        for lx, p in parsers.items():
            try:
                p.parse(w); got = True
            except UnexpectedInput:
                got = False
            except Exception as ex:
                raise Violation('parse raised %s' % type(ex).__name__, grammar=gtext, text=w, lexer=lx, error=str(ex)[:300])
            if got and not in_lang:
                raise Violation('LALR accepts a string outside the language', grammar=gtext, text=w, lexer=lx)
            if in_lang and not got and not ref.sr and not ref.rr_resolved:
                raise Violation('conflict-free LALR rejects a sentence', grammar=gtext, text=w, lexer=lx)
            if lex_ok:
                acc, tops, reds, erri = ref.run(toks, 'start')
                if acc != got:
                    raise Violation('accept/reject differs from the LR driver on the reference table (conflicts as shift)',
                                    grammar=gtext, text=w, lexer=lx, lark=got, reference=acc)
                # next-token sets after every accepted token prefix
                ip = p.parse_interactive(w)
                k = 0
                try:
                    while True:
                        want = ref.row_terminals(tops[k])
                        have = {s for s in ip.choices() if s not in ref.nts}
                        if want != have:
                            raise Violation('choices() after %d tokens differs from the LALR(1) row' % k, grammar=gtext, text=w, lexer=lx,
                                            lark=sorted(have), reference=sorted(want))
                        if any(ref.run(toks[:k] + ([t] if t != reflalr.END else []), 'start')[0] == 'loop' for t in want):
                            ctx.label('accepts() skipped: a candidate token sends the LR driver into a reduce loop' + ('' if cyclic else ' [grammar not flagged cyclic]'))
                            break
                        acs = ip.accepts()
                        if not acs <= want:
                            raise Violation('accepts() contains a terminal the automaton cannot consume', grammar=gtext, text=w, lexer=lx,
                                            accepts=sorted(acs), reference=sorted(want))
                        if k >= len(toks) or k + 1 >= len(tops): break
                        tok = next(ip.lexer_thread.lex(ip.parser_state))
                        ip.feed_token(tok)
                        k += 1
                except UnexpectedInput:
                    pass
                ctx.label('prefix-states-compared')
            ctx.label('in-language' if in_lang else 'not-in-language')


def strat(o, n, max_len):
    return gramgen.grammar_and_inputs(o, max_len=max_len, n=n).map(lambda c: {'g': c['g'], 'texts': c['texts']})


def phases(tier):
    if tier == 'thorough':
        return [Phase('ebnf', 'hypothesis', strategy=strat(OPTS, 5, 12), max_examples=300000),
                Phase('bnf', 'hypothesis', strategy=strat(OPTS_BNF, 5, 12), max_examples=600000)]
    return [Phase('ebnf', 'hypothesis', strategy=strat(OPTS, 4, 10), max_examples=40000),
            Phase('bnf', 'hypothesis', strategy=strat(OPTS_BNF, 4, 10), max_examples=120000)]
