"""C01  Earley accepts exactly the language of the grammar (basic / dynamic / dynamic_complete)."""
from hypothesis import strategies as st
from vlib.harness import Phase, Violation
from vlib import gram, gramgen
from lark import Lark
from lark.exceptions import UnexpectedInput, GrammarError

ID = 'C01'
LEVEL = 'exploration'
HANG_IS_VIOLATION = True
RULE = ('generated EBNF grammars (1-5 rules; left/right/middle recursion, nullable symbols, unit cycles, repeated sub-expressions, '
        'templates) over three terminal families (prefix-free strings; overlapping strings; regexps with several match lengths, '
        'with %ignore terminals that overlap them) x 4 inputs each (random derivations, one-edit mutants, arbitrary strings) x '
        'the Earley lexers; oracle = independent least-fix-point span recogniser on the grammar AST. A case is non-trivial when '
        'the grammar is recursive or has a nullable rule and its inputs include both an accepted and a rejected one; distinct = '
        'distinct (grammar, inputs)')
ASSUMPTIONS = ['basic lexer is compared on prefix-free fixed-string terminals only (tokenisation unique; C07 decides lexer precedence)',
               "dynamic: when the regex engine's match of some terminal at some reachable position is not its longest match the "
               "dynamic-lexer comparison is skipped for that input (labelled engine!=longest)",
               'reference recogniser (vlib/gram.py Ref) is the trusted base; it is cross-checked against the derivation enumerator (accepted <=> at least one derivation)']

FAMILIES = {
    'tok': (gramgen.Opts(terms='tok', max_rules=5, templates=True, ignore_in_rules=True), ('basic', 'dynamic', 'dynamic_complete')),
    'ovl': (gramgen.Opts(terms='ovl', max_rules=4, ignore_in_rules=True), ('dynamic', 'dynamic_complete')),
    # anonymous string literals, including words whose upper-case form is the name lark derives for a punctuation literal ("plus" / "+")
    'anon': (gramgen.Opts(terms='tok', max_rules=4, anon_lits=True, tok_sets=gramgen.TOK_SETS + gramgen.NAMECLASH_SETS * 2), ('basic', 'dynamic', 'dynamic_complete')),
    're': (gramgen.Opts(terms='re', max_rules=4, anon_re=True), ('dynamic', 'dynamic_complete')),
}
MODE = {'basic': 'exact', 'dynamic': 'longest', 'dynamic_complete': 'exact'}


class LarkLikeRef(gram.Ref):
    """variant references that model the two listed dynamic_complete deviations, used only to *classify* a failure"""
    def __init__(self, *a, **kw):
        self.ignore_engine_only = kw.pop('ignore_engine_only', False)
        self.engine_prefixes = kw.pop('engine_prefixes', False)
        gram.Ref.__init__(self, *a, **kw)

    def after(self, p):
        if not self.ignore_engine_only:
            return gram.Ref.after(self, p)
        got = self._after.get(p)
        if got is None:
            got = {p}; work = [p]
            while work:
                q = work.pop()
                for ig in self.terms.ignore:
                    t = self.terms.by_name[ig]
                    ends, eng = self.terms.lengths(ig, t['pat'], q)
                    if eng is not None and eng not in got:
                        got.add(eng); work.append(eng)
            self._after[p] = got
        return got

    def tok(self, item, i):
        if not self.engine_prefixes:
            return gram.Ref.tok(self, item, i)
        # exactly what xearley.scan explores: the engine's match, then the engine's match on every proper prefix of it
        self.mode, saved = 'exact', self.mode
        try:
            cands = gram.Ref.tok(self, item, i)
        finally:
            self.mode = saved
        if not cands: return []
        if item[0] == 't':
            pat = self.terms.by_name[item[1]]['pat']
        else:
            pat = {'kind': 'str' if item[0] == 'lit' else 're', 'value': item[1], 'flags': item[2] if len(item) > 2 else ''}
        import re
        r = re.compile(gram.pat_regex(pat))
        m = r.match(self.text, i)
        if not m or m.end() == i: return []
        s = m.group(0); ok = {m.end()}
        for j in range(1, len(s)):
            m2 = r.match(s[:-j])
            if m2 and m2.end() > 0: ok.add(i + m2.end())
        return [c for c in cands if c[0] in ok]


def build(gtext, lexer, case):
    try:
        return Lark(gtext, parser='earley', lexer=lexer)
    except GrammarError as e:
        if 'Rules defined twice' in str(e):
            return None
        raise Violation('construction raised GrammarError other than the documented one', grammar=gtext, lexer=lexer, error=str(e)[:400])
    except Exception as e:
        raise Violation('construction raised %s' % type(e).__name__, grammar=gtext, lexer=lexer, error=str(e)[:400])


def _uses_terminal(g, names):
    def u(item):
        k = item[0]
        if k == 't': return item[1] in names
        if k in ('grp', 'maybe'): return any(u(i) for a in item[1] for i in a)
        if k in ('opt', 'star', 'plus', 'rep'): return u(item[1])
        if k == 'tmpl': return any(u(a) for a in item[2])
        return False
    return any(u(i) for r in g['rules'] for a in r['alts'] for i in a['items'])


def check(case, ctx):
    g = case['g']; fam = case['family']
    gtext = gram.render_grammar(g)
    info = gram.analyse(g)
    conc = info['concrete']
    lexers = FAMILIES[fam][1]
    if g['ignore'] and 'basic' in lexers and _uses_terminal(g, set(g['ignore'])):
        # a rule references an %ignore'd terminal: the basic lexer drops every occurrence of it (as documented for %ignore), so such a
        # rule is dead there; the dynamic lexers do match the terminal when a rule asks for it, and only they are judged
        lexers = tuple(l for l in lexers if l != 'basic'); ctx.label('basic:skipped (ignored terminal used by a rule)')
    parsers = {}
    for lx in lexers:
        p = build(gtext, lx, case)
        if p is None:
            ctx.discard('GrammarError: rules defined twice (colliding optionals)')
            return
        parsers[lx] = p
    ctx.label('family:' + fam)
    for k in ('recursive', 'has_nullable', 'cyclic'):
        if info[k]: ctx.label('grammar:' + k)
    if g['ignore']: ctx.label('grammar:ignore')
    seen = set()
    for w in case['texts']:
        refs = {}
        for lx in lexers:
            mode = MODE[lx]
            if mode not in refs:
                refs[mode] = gram.Ref(g, w, mode, concrete=conc)
            ref = refs[mode]
            exp = ref.accepts()
            if lx == 'dynamic' and ref.terms.engine_differs:
                ctx.label('engine!=longest (dynamic comparison skipped)')
                continue
            try:
                parsers[lx].parse(w); got = True
            except UnexpectedInput:
                got = False
            except Exception as e:
                raise Violation('parse raised %s (not an UnexpectedInput)' % type(e).__name__, grammar=gtext, text=w, lexer=lx, error=str(e)[:300])
            seen.add(exp)
            ctx.label('accepted' if exp else 'rejected')
            if got != exp:
                raise Violation('%s %s input' % (lx, 'rejects a valid' if exp else 'accepts an invalid'), grammar=gtext, text=w, lexer=lx,
                                expected=exp, got=got)
        # oracle self-check: accepted <=> a derivation exists (different code path: chart-guided enumerator)
        if len(w) <= 6:
            r = refs.get('exact') or refs['longest']
            try:
                has = bool(r.trees())
                if has != r.accepts():
                    raise RuntimeError('oracle self-check failed: recogniser=%s enumerator=%s on %r\n%s' % (r.accepts(), has, w, gtext))
            except (gram.Cyclic, gram.TooMany):
                pass
    if (info['recursive'] or info['has_nullable']) and seen == {True, False}:
        ctx.nontrivial([gtext, case['texts']], sample={'grammar': gtext, 'texts': case['texts'], 'family': fam})


def _classify(case, v, **variant):
    """does the failure disappear when the reference models the listed deviation?"""
    d = v.detail
    if d.get('lexer') != 'dynamic_complete' or 'text' not in d or d.get('expected') is not True:
        return False
    ref = LarkLikeRef(case['g'], d['text'], 'exact', **variant)
    return ref.accepts() is False


KNOWN = {
    # dynamic_complete tries an %ignore terminal only with the regex engine's own match, not every match length
    'C01-dc-ignore-single-length': lambda case, v: _classify(case, v, ignore_engine_only=True),
    # dynamic_complete explores only lengths below the engine's first match of a terminal (unsorted alternations a|ab)
    'C01-dc-below-engine-match': lambda case, v: _classify(case, v, engine_prefixes=True) or _classify(case, v, engine_prefixes=True, ignore_engine_only=True),
}


def strat(fam, max_len, n):
    o = FAMILIES[fam][0]
    return gramgen.grammar_and_inputs(o, max_len=max_len, n=n, extra_chars='' if fam == 'tok' else '').map(
        lambda c: {'g': c['g'], 'texts': c['texts'], 'family': fam})


def phases(tier):
    if tier == 'thorough':
        return [Phase('tok', 'hypothesis', strategy=strat('tok', 16, 6), max_examples=200000),
                Phase('ovl', 'hypothesis', strategy=strat('ovl', 14, 6), max_examples=120000),
                Phase('re', 'hypothesis', strategy=strat('re', 14, 6), max_examples=200000),
                Phase('anonymous-literals', 'hypothesis', strategy=strat('anon', 16, 6), max_examples=100000)]
    return [Phase('tok', 'hypothesis', strategy=strat('tok', 10, 4), max_examples=24000),
            Phase('ovl', 'hypothesis', strategy=strat('ovl', 10, 4), max_examples=16000),
            Phase('re', 'hypothesis', strategy=strat('re', 10, 4), max_examples=24000),
            Phase('anonymous-literals', 'hypothesis', strategy=strat('anon', 12, 4), max_examples=12000)]
