"""C18  Indenter emits CPython's INDENT/DEDENT structure."""
import io, tokenize
from hypothesis import strategies as st
from vlib.harness import Phase, Violation, blame_lark
from lark import Lark, Token
from lark.indenter import Indenter, DedentError
from lark.exceptions import UnexpectedInput

ID = 'C18'
LEVEL = 'exploration'
RULE = ('(1) synthetic token streams (newline tokens with indent strings over {space, tab}, names, nested brackets balanced overall, blank '
        'lines) fed to Indenter.process for tab_len in {1,4,8}, compared token by token with a reference stack model (width = spaces + '
        'tabs*tab_len; INDENT iff deeper, one DEDENT per closed level also at the end, nothing inside brackets, DedentError on a column '
        'that is not an open level; balance at end); (2) whole programs lexed by a Lark grammar with the Indenter and by CPython\'s '
        'tokenize, restricted to all-space or all-tab indents with tab_len=8 where both width notions coincide: same INDENT/DEDENT/'
        'content sequence and DedentError <=> IndentationError; (3) histories: several streams (complete, failing, abandoned half-way) '
        'through one Indenter object, each compared with a fresh object. Non-trivial = stream with >= 2 indentation levels and a '
        'dedent, or a bracketed multi-line; distinct = stream/program/history')
ASSUMPTIONS = ['streams are bracket-balanced (an unmatched closing bracket hits an assertion in the Indenter; the property is about line structure)',
               'mixed tab/space indents are judged by the reference model only: CPython rejects them with TabError, which is not the Indenter\'s concern']


def make_indenter(tab):
    class Ind(Indenter):
        NL_type = '_NL'; OPEN_PAREN_types = ['LPAR', 'LSQB']; CLOSE_PAREN_types = ['RPAR', 'RSQB']
        INDENT_type = '_INDENT'; DEDENT_type = '_DEDENT'; tab_len = tab
    return Ind()


def reference(stream, tab):
    """stream: list of (type, value).  Returns (list of (type, value), 'DEDENT_ERROR' or None)"""
    out = []; levels = [0]; paren = 0
    for ty, v in stream:
        if ty == '_NL':
            if paren == 0:
                out.append((ty, v))
                ind = v.rsplit('\n', 1)[1]
                w = ind.count(' ') + ind.count('\t') * tab
                if w > levels[-1]:
                    levels.append(w); out.append(('_INDENT', ind))
                else:
                    while w < levels[-1]:
                        levels.pop(); out.append(('_DEDENT', ind))
                    if w != levels[-1]:
                        return out, 'DEDENT_ERROR'
        else:
            out.append((ty, v))
        if ty in ('LPAR', 'LSQB'): paren += 1
        elif ty in ('RPAR', 'RSQB'): paren -= 1
    while len(levels) > 1:
        levels.pop(); out.append(('_DEDENT', ''))
    return out, None


@st.composite
def streams(draw, max_lines=8):
    lines = draw(st.integers(1, max_lines))
    out = []; depth = []
    levels = ['']
    for li in range(lines):
        for _ in range(draw(st.integers(1, 3))):
            c = draw(st.integers(0, 9))
            if c < 6: out.append(['NAME', 'x'])
            elif c < 8:
                k = draw(st.sampled_from(['LPAR', 'LSQB'])); out.append([k, '(' if k == 'LPAR' else '[']); depth.append(k)
            elif depth:
                k = depth.pop(); out.append(['RPAR', ')'] if k == 'LPAR' else ['RSQB', ']'])
            else: out.append(['NAME', 'y'])
        # newline (+ optional blank lines) + indent of the next line
        nl = '\n' * draw(st.sampled_from([1, 1, 1, 2])) if draw(st.integers(0, 5)) else '\n  \n'
        r = draw(st.integers(0, 9))
        if r < 4: ind = levels[-1]
        elif r < 6: ind = levels[-1] + draw(st.sampled_from([' ', '  ', '    ', '\t']))
        elif r < 9 and len(levels) > 1: ind = draw(st.sampled_from(levels[:-1]))
        else: ind = draw(st.sampled_from(['', ' ', '   ', '\t', ' \t', '\t ', '        ']))
        if not depth:
            # keep a model of the open levels only to steer generation (the oracle recomputes everything)
            while len(levels) > 1 and len(ind) < len(levels[-1]): levels.pop()
            if len(ind) > len(levels[-1]): levels.append(ind)
        out.append(['_NL', nl + ind])
    while depth:
        k = depth.pop(); out.append(['RPAR', ')'] if k == 'LPAR' else ['RSQB', ']'])
    if draw(st.booleans()): out.append(['NAME', 'z'])
    return out


_KEEP = []


def run_indenter(ind, stream, upto=None, keep=False):
    toks = []
    pos = 0
    for ty, v in stream:
        toks.append(Token(ty, v, pos, 1, 1)); pos += len(v)
    out = []
    try:
        gen = ind.process(iter(toks))
        if keep: _KEEP.append(gen)      # an abandoned stream stays referenced (a dropped generator would be closed at once)
        for i, t in enumerate(gen):
            out.append((t.type, str(t)))
            if upto is not None and i + 1 >= upto:
                return out, 'ABANDONED'
    except DedentError:
        return out, 'DEDENT_ERROR'
    return out, None


@blame_lark
def check_stream(case, ctx):
    tab = case['tab']; stream = [tuple(x) for x in case['stream']]
    got = run_indenter(make_indenter(tab), stream)
    want = reference(stream, tab)
    if got != (list(want[0]), want[1]):
        raise Violation('Indenter output differs from the reference stack model', tab_len=tab, stream=case['stream'], got=[got[0][-6:], got[1]], want=[want[0][-6:], want[1]])
    if want[1] is None:
        bal = sum(1 for t, _ in got[0] if t == '_INDENT') - sum(1 for t, _ in got[0] if t == '_DEDENT')
        if bal != 0:
            raise Violation('INDENT and DEDENT are not balanced at the end of the stream', tab_len=tab, stream=case['stream'], balance=bal)
    ctx.label('dedent-error' if want[1] else 'ok', 'tab_len:%d' % tab)
    n_in = sum(1 for t, _ in want[0] if t == '_INDENT'); n_de = sum(1 for t, _ in want[0] if t == '_DEDENT')
    if (n_in >= 2 and n_de >= 1) or any(t in ('LPAR', 'LSQB') for t, _ in stream):
        ctx.nontrivial(['stream', tab, case['stream']], sample={'tab_len': tab, 'stream': case['stream'][:14], 'indents': n_in, 'dedents': n_de, 'error': want[1]})


# ------------------------------------------------------------------ (2) CPython's tokenizer
G = r'''
start: (_NL | NAME | LPAR | RPAR | LSQB | RSQB | _INDENT | _DEDENT)*
NAME: /[a-z]+/
LPAR: "("
RPAR: ")"
LSQB: "["
RSQB: "]"
_NL: /(\r?\n[\t ]*)+/
%declare _INDENT _DEDENT
%ignore /[\t ]+/
'''
_parsers = {}


def lark_seq(text, lexer):
    p = _parsers.get(lexer)
    if p is None:
        p = _parsers[lexer] = Lark(G, parser='lalr', lexer=lexer, postlex=make_indenter(8))
    try:
        out = []
        for t in p.lex(text):
            if t.type == '_NL': continue
            out.append({'_INDENT': 'IN', '_DEDENT': 'DE', 'NAME': 'n', 'LPAR': '(', 'RPAR': ')', 'LSQB': '[', 'RSQB': ']'}[t.type])
        return out
    except DedentError:
        return 'DEDENT_ERROR'


def py_seq(text):
    out = []
    try:
        for tok in tokenize.generate_tokens(io.StringIO(text).readline):
            if tok.type == tokenize.INDENT: out.append('IN')
            elif tok.type == tokenize.DEDENT: out.append('DE')
            elif tok.type == tokenize.NAME: out.append('n')
            elif tok.type == tokenize.OP: out.append(tok.string)
        return out
    except TabError:
        return 'TABERROR'
    except IndentationError:
        return 'DEDENT_ERROR'
    except tokenize.TokenError as e:
        return 'TOKERR'


@st.composite
def programs(draw):
    unit = draw(st.sampled_from([' ', '  ', '    ', '\t']))     # all-space or all-tab programs
    lines = []; depth = 0; level = 0
    for li in range(draw(st.integers(1, 8))):
        if depth > 0: ind = unit * draw(st.integers(0, 3))
        elif li == 0: ind = ''
        else:
            r = draw(st.integers(0, 9))
            if r < 4: pass
            elif r < 7: level += 1
            elif level > 0: level = draw(st.integers(0, level - 1))
            else: level = draw(st.integers(0, 2))
            ind = unit * level
            if draw(st.integers(0, 11)) == 0: ind = unit * draw(st.integers(0, 4)) + (' ' if unit != '\t' and draw(st.booleans()) else '')
        toks = []
        for _ in range(draw(st.integers(1, 3))):
            r = draw(st.integers(0, 9))
            if r < 6: toks.append('x')
            elif r < 8:
                toks.append(draw(st.sampled_from(['(', '[']))); depth += 1
            elif depth > 0:
                toks.append(')'); depth -= 1     # bracket kinds need not match for either tokenizer
            else: toks.append('y')
        lines.append(ind + ' '.join(toks))
        if draw(st.integers(0, 6)) == 0: lines.append(draw(st.sampled_from(['', unit, unit * 3])))
    lines.append(')' * depth)
    return {'text': '\n'.join(lines) + '\n', 'lexer': draw(st.sampled_from(['basic', 'contextual']))}


@blame_lark
def check_program(case, ctx):
    text = case['text']
    b = py_seq(text)
    if b in ('TOKERR', 'TABERROR'):
        ctx.discard('CPython: ' + b); return
    a = lark_seq(text, case['lexer'])
    if a != b:
        raise Violation('INDENT/DEDENT structure differs from CPython\'s tokenizer', program=text, lark=a if isinstance(a, str) else a[-10:], cpython=b if isinstance(b, str) else b[-10:])
    ctx.label('cpython:agree', 'cpython:dedent-error' if b == 'DEDENT_ERROR' else 'cpython:ok')
    if isinstance(a, list) and a.count('IN') >= 2 and a.count('DE') >= 1:
        ctx.nontrivial(['program', text], sample={'program': text, 'sequence': a[:20]})


# ------------------------------------------------------------------ (3) one Indenter object, several streams
@st.composite
def histories(draw):
    n = draw(st.integers(2, 4))
    return {'tab': draw(st.sampled_from([1, 4, 8])), 'streams': [draw(streams(5)) for _ in range(n)],
            'abandon': [draw(st.one_of(st.none(), st.integers(1, 6))) for _ in range(n)], 'keep': draw(st.booleans())}


@blame_lark
def check_history(case, ctx):
    tab = case['tab']
    shared = make_indenter(tab)
    dirty = False
    del _KEEP[:]
    for stream, ab in zip(case['streams'], case['abandon']):
        s = [tuple(x) for x in stream]
        got = run_indenter(shared, s, upto=ab, keep=case.get('keep', True))
        want = run_indenter(make_indenter(tab), s, upto=ab)
        if got != want:
            raise Violation('a reused Indenter gives a different result than a fresh one', tab_len=tab, streams=case['streams'], abandon=case['abandon'],
                            got=[got[0][-5:], got[1]], want=[want[0][-5:], want[1]])
        if dirty:
            ctx.nontrivial(['history', tab, case['streams'], case['abandon']], sample={'tab_len': tab, 'n_streams': len(case['streams']), 'abandon': case['abandon']})
        if got[1] in ('DEDENT_ERROR', 'ABANDONED'): dirty = True
    ctx.label('history')


def phases(tier):
    k = 12 if tier == 'thorough' else 1
    return [Phase('streams-vs-model', 'hypothesis', strategy=st.builds(lambda s, t: {'stream': s, 'tab': t}, streams(), st.sampled_from([1, 4, 8])),
                  max_examples=80000 * k, check=check_stream),
            Phase('programs-vs-cpython', 'hypothesis', strategy=programs(), max_examples=60000 * k, check=check_program),
            Phase('histories', 'hypothesis', strategy=histories(), max_examples=30000 * k, check=check_history)]


check = check_stream
