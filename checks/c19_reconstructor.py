"""C19  Reconstructor output re-parses to the same tree."""
from hypothesis import strategies as st
from vlib.harness import Phase, Violation
from vlib import gram, gramgen, reflalr
from lark import Lark, Tree, Token
from lark.reconstruct import Reconstructor
from lark.exceptions import UnexpectedInput, GrammarError

ID = 'C19'
LEVEL = 'exploration'
RULE = ('generated LALR grammars inside the Reconstructor\'s supported class (maybe_placeholders=False; conflict-free per the independent '
        'LALR(1) construction, hence unambiguous; every rule reachable and productive; all filtered terminals string literals; every '
        'alternative keeps at least one unfiltered symbol other than the rule itself; prefix-free string terminals so that re-lexing the '
        'output is unambiguous; whitespace ignored) using ?rules, !rules, _inlined rules, aliases, groups, + and ~n..m, _TERMINALS and '
        'inlined templates, x sentences from the derivation generator with random whitespace. Oracle: '
        'p.parse(Reconstructor(p).reconstruct(p.parse(t))) == p.parse(t). Non-trivial = tree that contains >= 1 filtered token and an '
        'inlined or ?-collapsed rule; distinct = (grammar, input)')
ASSUMPTIONS = ['an alias name is used by one rule only (nodes of equal name from different rules cannot be told apart in a tree)',
               'anonymous literals never spell a named terminal (a kept and a filtered token of the same type cannot be told apart in a tree)',
               'grammars outside the stated class are discarded and counted', 'non-inlined template rules are excluded by a listed open finding (the source has a TODO for templates)']

O = gramgen.Opts(terms='tok', max_rules=4, shaping=True, templates=True, lit_tmpl_args=True, ignore='always', acyclic=True, nonnull=True, depth=1, distinct_anon=True, unique_aliases=True)


def kept_symbol(item, self_name, rules_by):
    k = item[0]
    if k == 't': return not item[1].startswith('_')
    if k == 'n': return item[1] != self_name
    if k in ('tmpl', 'p'): return True
    if k in ('plus', 'rep'): return kept_symbol(item[1], self_name, rules_by)
    if k == 'grp': return all(any(kept_symbol(i, self_name, rules_by) for i in alt) for alt in item[1])
    return False


def supported(g):
    # judged on the grammar with its templates instantiated: a parameter bound to an anonymous literal or a _TERMINAL is filtered
    by = gram.Concrete(g).rules
    for name, r in by.items():
        for a in r['alts']:
            if not any(kept_symbol(i, name, by) for i in a['items']):
                return False
            # x+ / x* become helper rules of their own: their alternatives must keep a symbol too
            for i in _flat(a['items']):
                if i[0] in ('plus', 'star') and not kept_symbol(i[1], None, by):
                    return False
    return True


def has_noninlined_template(g):
    return any(r.get('params') and not r['name'].startswith('_') for r in g['rules'])


def norm(t):
    if isinstance(t, Tree): return ('N', str(t.data), tuple(norm(c) for c in t.children))
    if isinstance(t, Token): return ('T', t.type, str(t))
    return repr(t)


def features(t, g):
    filtered = any(i[0] == 'lit' or (i[0] == 't' and i[1].startswith('_')) for r in g['rules'] for a in r['alts'] for i in _flat(a['items']))
    inl = any(r['name'].startswith('_') or '?' in r['mod'] for r in g['rules'])
    return filtered and inl


def _flat(items):
    for i in items:
        yield i
        if i[0] in ('grp', 'maybe'):
            for a in i[1]:
                for x in _flat(a): yield x
        elif i[0] in ('opt', 'star', 'plus', 'rep'):
            for x in _flat([i[1]]): yield x


def check(case, ctx):
    g = case['g']
    if not supported(g):
        ctx.discard('an alternative keeps no unfiltered symbol (outside the supported class)'); return
    if gram.colliding_alternatives(g):
        ctx.discard('colliding alternatives'); return
    gtext = gram.render_grammar(g)
    try:
        p = Lark(gtext, parser='lalr', maybe_placeholders=False)
    except GrammarError:
        ctx.discard('GrammarError (not LALR / collision)'); return
    if not reflalr.conflict_free(p.rules, ['start']):
        ctx.discard('grammar has LALR conflicts (possibly ambiguous: outside the supported class)'); return
    try:
        rec = Reconstructor(p)
    except Exception as e:
        raise Violation('Reconstructor construction raised %s' % type(e).__name__, grammar=gtext, error=str(e)[:300], template=has_noninlined_template(g))
    for w in case['texts']:
        try:
            t = p.parse(w)
        except UnexpectedInput:
            ctx.label('input:rejected'); continue
        try:
            out = rec.reconstruct(t)
        except Exception as e:
            raise Violation('reconstruct raised %s' % type(e).__name__, grammar=gtext, text=w, tree=str(norm(t))[:300], error=str(e)[:200],
                            template=has_noninlined_template(g) and isinstance(e, AssertionError))
        try:
            t2 = p.parse(out)
        except UnexpectedInput as e:
            raise Violation('reconstructed text is rejected by the parser', grammar=gtext, text=w, reconstructed=out, error=str(e)[:200])
        if norm(t2) != norm(t):
            raise Violation('reconstructed text parses to a different tree', grammar=gtext, text=w, reconstructed=out, original=str(norm(t))[:300], reparsed=str(norm(t2))[:300])
        ctx.label('roundtrip:ok')
        if w.strip() and features(t, g):
            ctx.nontrivial([gtext, w], sample={'grammar': gtext, 'text': w, 'reconstructed': out})


def _known_expand1_repetition(case, v):
    # ?rule with an alternative whose only unfiltered symbol is a repetition or an inlined rule/template (x+, x~n..m, _r, _t{..}):
    # when that symbol yields >= 2 children the node exists, but TreeMatcher registers the rule as always-collapsing
    # (len(recons_exp) == 1) and cannot match a node of that name
    if 'reconstruct raised' in v.what:
        err = v.detail.get('error', '')
    elif 'parses to a different tree' in v.what:
        # same cause, other symptom: the text is generated for the collapsed reading, so re-parsing shows a node of that
        # rule that the original tree does not have
        o_, r_ = v.detail.get('original', ''), v.detail.get('reparsed', '')
        err = ' '.join("Tree(Token('RULE', '%s')" % r['name'] for r in case['g']['rules']
                       if "('N', '%s'," % r['name'] in r_ and "('N', '%s'," % r['name'] not in o_)
    else:
        return False
    by = gram.Concrete(case['g']).rules          # templates instantiated: a parameter bound to a literal is filtered like a literal
    def multi(i):
        return i[0] in ('plus', 'rep', 'star') or (i[0] == 'n' and by[i[1]]['inline'])
    for r in by.values():
        if not r['expand1']: continue
        keep_all = r['keep']
        for a in r['alts']:
            def visible(i):
                leaves = [x for x in _flat([i]) if x[0] in ('t', 'lit', 'n', 're')]
                return any(keep_all or not (x[0] == 'lit' or (x[0] == 't' and x[1].startswith('_'))) for x in leaves)
            kept = [i for i in a['items'] if visible(i)]
            if len(kept) == 1 and multi(kept[0]) and "Tree(Token('RULE', '%s')" % r['display'] in err:
                return True
    return False


def _known_recursive_alias(case, v):
    # a rule that refers to itself and also has an aliased alternative: TreeMatcher makes such a rule expandable in
    # place, and its child matching (source: "TODO: ambiguity?") may pick a nested reading of a flat child list
    if 'parses to a different tree' not in v.what: return False
    def refs_self(r):
        return any(i[0] == 'n' and i[1] == r['name'] for a in r['alts'] for i in _flat(a['items']))
    return any(refs_self(r) and any(a.get('alias') for a in r['alts']) for r in case['g']['rules'])


KNOWN = {'C19-noninlined-template-child': lambda case, v: bool(v.detail.get('template')),
         'C19-self-recursive-rule-with-alias': _known_recursive_alias,
         'C19-expand1-rule-of-one-repetition': _known_expand1_repetition}


# ------------------------------------------------------------------ regexp terminals next to keyword literals
# (where the Reconstructor must decide about separating spaces: word-like, numeric and mixed tokens such as 1.5 / os.path / a-b)
SKEL = [
    ('start: stmt+\nstmt: "at" NUM NUM ";" | "import" PATH "as" NAME ";" | NAME "=" value ";"\n?value: NUM | NAME | PATH | value "+" NUM\n'
     'NAME: /[a-z_]+/\nPATH: /[a-z]+(\\.[a-z]+)+/\nNUM: /[0-9]+(\\.[0-9]+)?/\n%ignore " "\n',
     ['at N N ;', 'import P as W ;', 'W = N ;', 'W = P + N ;', 'W = W + N + N ;']),
    ('start: item ("," item)*\n?item: "not" item -> neg | WORD | RANGE | "(" start ")"\nWORD: /[a-z]+/\nRANGE: /[a-z]-[a-z]/\n%ignore " "\n',
     ['not W', 'R', 'not R , W', '( W , not R )', 'not not W , R , R']),
    ('start: (pair | flag)+\npair: KEY value\nflag: "no" KEY\nvalue: NUM | "[" NUM+ "]" -> nums\nKEY: /[a-z]+[.][a-z]+|[a-z]+/\nNUM: /[0-9]+([.][0-9]+)?/\n%ignore " "\n',
     ['K N', 'no K', 'K [ N N N ]', 'K N no K K N']),
]
SKEL += [
    # lists of ?-rules whose multi-child alternatives contain filtered literals, in three list encodings; several trees are
    # reconstructed one after the other by ONE Reconstructor (its matcher caches per rule name)
    ('start: _items\n_items: thing | thing _items\n?thing: item | block\n?item: W | "(" W W ")"\nblock: "{" _items "}"\nW: /[a-z]/\n%ignore " "\n',
     ['( L L )', 'L', '{ L L L }', '{ ( L L ) L }', 'L ( L L )', '{ L { L L } }']),
    ('start: thing+\n?thing: item | block\n?item: W | "(" W W ")"\nblock: "{" thing+ "}"\nW: /[a-z]/\n%ignore " "\n',
     ['( L L )', 'L', '{ L L L }', '{ ( L L ) L }', 'L ( L L )']),
    ('start: _l\n_l: _l thing | thing\n?thing: item | pair\n?item: W | "<" W "," W ">"\npair: W ":" thing\nW: /[a-z]/\n%ignore " "\n',
     ['< L , L >', 'L', 'L : L', 'L : < L , L >', 'L < L , L > L']),
]
FILL = {'L': ['a', 'b', 'c', 'd'], 'N': ['1', '22', '1.5', '0.25'], 'P': ['os.path', 'a.b.c'], 'W': ['x', 'ab', 'as_', 'nota'], 'R': ['a-b', 'x-y'], 'K': ['k', 'a.b', 'no', 'key']}


@st.composite
def skeleton_cases(draw):
    gi = draw(st.integers(0, len(SKEL) - 1))
    g, tpls = SKEL[gi]
    texts = []
    for _ in range(5):
        parts = []
        for tpl in draw(st.lists(st.sampled_from(tpls), min_size=1, max_size=3)):
            parts.append(' '.join(draw(st.sampled_from(FILL[x])) if x in FILL else x for x in tpl.split()))
        texts.append((' , ' if gi == 1 else ' ').join(parts))
    return {'gtext': g, 'texts': texts, 'parser': draw(st.sampled_from(['lalr', 'lalr', 'earley']))}


def check_skeleton(case, ctx):
    g = case['gtext']
    p = Lark(g, parser=case['parser'], maybe_placeholders=False)
    rec = Reconstructor(p)
    for w in case['texts']:
        try:
            t = p.parse(w)
        except UnexpectedInput:
            ctx.label('skeleton:rejected'); continue
        try:
            out = rec.reconstruct(t)
        except Exception as e:
            raise Violation('reconstruct raised %s' % type(e).__name__, grammar=g, text=w, error=str(e)[:200])
        try:
            t2 = p.parse(out)
        except UnexpectedInput as e:
            raise Violation('reconstructed text is rejected by the parser', grammar=g, text=w, reconstructed=out, error=str(e)[:200])
        if norm(t2) != norm(t):
            raise Violation('reconstructed text parses to a different tree', grammar=g, text=w, reconstructed=out, original=str(norm(t))[:300], reparsed=str(norm(t2))[:300])
        ctx.label('skeleton:roundtrip-ok')
        if any(c in w for c in '.-'):
            ctx.nontrivial([g, w, case['parser']], sample={'grammar': g, 'text': w, 'reconstructed': out})


# ------------------------------------------------------------------ term_subs: filtered regexp terminals and terminals declared for a post-lexer
class _EndPostLex:
    """turns SEMI tokens into the %declare'd terminal _END (the way an indenter produces _INDENT/_DEDENT)"""
    always_accept = ('SEMI',)
    def process(self, stream):
        for t in stream:
            yield Token.new_borrow_pos('_END', t.value, t) if t.type == 'SEMI' else t


SUBS = [
    # (grammar, postlex or None, term_subs, sentence templates)
    ('start: stmt+\nstmt: NAME "=" NUM _END | "print" NAME _END | "{" stmt+ "}"\n%declare _END\nSEMI: ";"\nNAME: /[a-z]+/\nNUM: /[0-9]+/\n%ignore " "\n',
     _EndPostLex, {'_END': lambda s: ';'}, ['W = N ;', 'print W ;', '{ W = N ; print W ; }']),
    ('start: item (_SEP item)*\n?item: NAME | "(" start ")" | NAME _ARROW item -> to\n_SEP: /,+/\n_ARROW: /-+>/\nNAME: /[a-z]+/\n%ignore " "\n',
     None, {'_SEP': lambda s: ',', '_ARROW': lambda s: '->'}, ['W', 'W , W', 'W ,, ( W , W )', 'W --> W', 'W -> ( W ,,, W ) , W']),
]


@st.composite
def subs_cases(draw):
    k = draw(st.integers(0, len(SUBS) - 1))
    def sentence():
        parts = draw(st.lists(st.sampled_from(SUBS[k][3]), min_size=1, max_size=3))
        joined = (' , ' if k == 1 else ' ').join(parts)
        return ' '.join({'W': draw(st.sampled_from(['a', 'bc', 'print', 'x'])), 'N': draw(st.sampled_from(['1', '22']))}.get(x, x) for x in joined.split())
    return {'skel': k, 'texts': [sentence() for _ in range(4)], 'parser': draw(st.sampled_from(['lalr', 'lalr', 'earley']))}


def check_subs(case, ctx):
    g, postlex, subs, _t = SUBS[case['skel']]
    if postlex is not None and case['parser'] != 'lalr':
        kw = {'parser': 'lalr'}
    else:
        kw = {'parser': case['parser']}
    if postlex is not None: kw['postlex'] = postlex()
    p = Lark(g, maybe_placeholders=False, **kw)
    try:
        rec = Reconstructor(p, term_subs=subs)
    except Exception as e:
        raise Violation('Reconstructor construction raised %s' % type(e).__name__, grammar=g, error=str(e)[:300])
    for w in case['texts']:
        try:
            t = p.parse(w)
        except UnexpectedInput:
            ctx.label('subs:rejected'); continue
        try:
            out = rec.reconstruct(t)
        except Exception as e:
            raise Violation('reconstruct raised %s' % type(e).__name__, grammar=g, text=w, term_subs=sorted(subs), error=str(e)[:200])
        try:
            t2 = p.parse(out)
        except UnexpectedInput as e:
            raise Violation('reconstructed text is rejected by the parser', grammar=g, text=w, reconstructed=out, error=str(e)[:200])
        if norm(t2) != norm(t):
            raise Violation('reconstructed text parses to a different tree', grammar=g, text=w, reconstructed=out, original=str(norm(t))[:300], reparsed=str(norm(t2))[:300])
        ctx.label('subs:roundtrip-ok')
        ctx.nontrivial(['subs', case['skel'], kw['parser'], w], sample={'grammar': g, 'text': w, 'reconstructed': out, 'term_subs': sorted(subs)})


def strat():
    return gramgen.grammar_and_inputs(O, max_len=10, n=4).map(lambda c: {'g': c['g'], 'texts': c['texts']})


def phases(tier):
    k = 12 if tier == 'thorough' else 1
    return [Phase('roundtrip', 'hypothesis', strategy=strat(), max_examples=24000 * k),
            Phase('regexp-terminals-next-to-keywords', 'hypothesis', strategy=skeleton_cases(), max_examples=3000 * k, check=check_skeleton),
            Phase('term-subs-and-declared-terminals', 'hypothesis', strategy=subs_cases(), max_examples=1500 * k, check=check_subs)]
