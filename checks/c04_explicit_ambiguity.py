"""C04  ambiguity='explicit' enumerates exactly all derivations (acyclic); sound and terminating (cyclic)."""
from hypothesis import strategies as st
from vlib.harness import Phase, Violation
from vlib import gram, gramgen
from lark import Lark, Tree
from lark.visitors import CollapseAmbiguities
from lark.exceptions import UnexpectedInput, GrammarError

ID = 'C04'
LEVEL = 'exploration'
HANG_IS_VIOLATION = True
RULE = ('generated ambiguous grammars with all shaping features (derivation-acyclic by construction for the completeness clause, '
        'unrestricted - incl. unit cycles, nullable loops, x* over nullable x - for the soundness/termination clause) x inputs of <= 8 '
        'tokens x {basic, dynamic, dynamic_complete (overlapping string terminals: ambiguity inside terminals)} x keep_all_tokens x '
        'maybe_placeholders. Oracle: own expansion of every _ambig node must equal the set of shaped trees of all derivations '
        'enumerated on the grammar AST (acyclic) / every expanded tree must validate as a derivation (cyclic); CollapseAmbiguities '
        'must give the same set. Non-trivial = accepted input with >= 2 distinct shaped trees; distinct = distinct (grammar, options, input)')
ASSUMPTIONS = ['trees are compared the way lark compares them (tokens by type and value): derivations that differ only in where an equal token sits between ignored text give the same shaped tree',
               'derivation sets above 2000 shaped trees are skipped and counted', 'duplicates in the expanded list are tolerated (the property speaks of the set); their rate is reported',
               'dynamic_complete is driven with fixed-string terminals only (regexps fall under the listed C01 finding)']

O_ACYC = gramgen.Opts(terms='tok', max_rules=4, shaping=True, templates=True, ignore=True, acyclic=True)
O_ACYC_OVL = gramgen.Opts(terms='ovl', max_rules=3, shaping=True, ignore=True, acyclic=True)
# cyclic grammars: the explicit tree can be exponentially large in the input length (not a hang), so inputs stay <= 4 tokens
# regexp terminals with several match lengths (ambiguity *inside* terminals under dynamic_complete), restricted to regexps for
# which the listed C01 deviations cannot occur; ignored terminals are single fixed strings
O_ACYC_RE = gramgen.Opts(terms='re', max_rules=3, shaping=True, ignore=True, acyclic=True, re_safe=True, ignore_kinds='tok')
O_ANY = gramgen.Opts(terms='tok', max_rules=3, shaping=True, templates=True, ignore=True, acyclic=False, max_alts=2, max_items=2, depth=1)
MODE = {'basic': 'exact', 'dynamic': 'longest', 'dynamic_complete': 'exact'}


def lib_collapse(t, named):
    out = set()
    for x in CollapseAmbiguities().transform(t):
        out.add(norm_any(x, named))
    return out


def count_expansions(t, cap=10**7, _memo=None):
    """number of trees a normalised result denotes (dynamic programming over shared sub-trees)"""
    if t is None or t[0] != 'N': return 1
    if _memo is None: _memo = {}
    got = _memo.get(id(t))
    if got is not None: return got
    if t[1] == '_ambig':
        n = min(cap, sum(count_expansions(c, cap, _memo) for c in t[2]))
    else:
        n = 1
        for c in t[2]:
            n *= count_expansions(c, cap, _memo)
            if n > cap:
                n = cap; break
    _memo[id(t)] = n
    return n


def norm_any(t, named):
    # CollapseAmbiguities builds trees whose children are tuples: normalise structurally
    if t is None: return None
    if hasattr(t, 'children') and hasattr(t, 'data'):
        return ('N', str(t.data), tuple(norm_any(c, named) for c in t.children))
    return gram.norm_tree(t, named)


def check(case, ctx):
    g = case['g']; ka = case['keep_all']; mp = case['placeholders']; fam = case['family']
    gtext = gram.render_grammar(g)
    named = {t['name'] for t in g['terms']}
    if gram.colliding_alternatives(g):
        ctx.discard('two alternatives of a rule expand to the same symbol sequence (merged by lark: documented collision)'); return
    info = gram.analyse(g)
    conc = info['concrete']
    acyclic = not info['cyclic']
    lexers = ('basic', 'dynamic', 'dynamic_complete') if fam == 'tok' else (('dynamic_complete',) if fam == 're' else ('dynamic', 'dynamic_complete'))
    parsers = {}
    for lx in lexers:
        try:
            parsers[lx] = Lark(gtext, parser='earley', lexer=lx, ambiguity='explicit', keep_all_tokens=ka, maybe_placeholders=mp)
        except GrammarError as e:
            if 'Rules defined twice' in str(e):
                ctx.discard('GrammarError: rules defined twice (colliding optionals)'); return
            raise Violation('construction raised GrammarError', grammar=gtext, error=str(e)[:300])
        except Exception as e:
            raise Violation('construction raised %s' % type(e).__name__, grammar=gtext, error=str(e)[:300])
    ctx.label('grammar:acyclic' if acyclic else 'grammar:cyclic')
    for w in case['texts']:
        for lx, p in parsers.items():
            ref = gram.Ref(g, w, MODE[lx], keep_all=ka, placeholders=mp, concrete=conc)
            if ref.terms.engine_differs and lx == 'dynamic':
                continue
            if not ref.accepts():
                ctx.label('input:rejected'); continue
            expected = None
            try:
                expected = {gram.strip_pos(x) for x in ref.trees()}
            except gram.Cyclic:
                if acyclic:
                    raise RuntimeError('static analysis says acyclic but the enumerator met a cycle:\n%s\n%r' % (gtext, w))
                ctx.label('input:infinitely-many-derivations')
            except gram.TooMany:
                ctx.label('input:too-many-derivations (skipped)'); continue
            if expected is not None:
                # few shaped trees can hide astronomically many derivations (filtered/inlined parts): lark's explicit result then is
                # a giant _ambig of equal trees - size, not property
                try:
                    if ref.count(cap=3000) > 3000: raise gram.TooMany()
                except gram.TooMany:
                    ctx.label('input:too-many-derivations (skipped)'); continue
                except gram.Cyclic:
                    pass
            try:
                t = p.parse(w)
            except UnexpectedInput:
                raise Violation('explicit-ambiguity parse rejects an input that has a derivation', grammar=gtext, text=w, lexer=lx)
            except Exception as e:
                raise Violation('parse raised %s' % type(e).__name__, grammar=gtext, text=w, lexer=lx, error=str(e)[:300])
            nt = gram.norm_tree(t, named)
            if count_expansions(nt) > 4000:
                # the result denotes thousands of trees (cyclic grammars): expanding it - here or in CollapseAmbiguities - is
                # exponential work of the check, not a property matter
                ctx.label('result denotes > 4000 trees (expansion skipped)'); continue
            try:
                lst = gram.expand_ambig(nt) if expected is None else gram.expand_ambig(gram.strip_pos(nt))
            except MemoryError:
                raise
            got = set(lst)
            if len(lst) != len(got): ctx.label('result:duplicate alternatives')
            if expected is not None:
                if got != expected:
                    missing = [gram.show(x) for x in list(expected - got)[:3]]
                    extra = [gram.show(x) for x in list(got - expected)[:3]]
                    raise Violation('expanded _ambig set differs from the set of derivations', grammar=gtext, text=w, lexer=lx,
                                    keep_all_tokens=ka, maybe_placeholders=mp, n_expected=len(expected), n_got=len(got), missing=missing, extra=extra)
                ctx.label('input:ambiguous' if len(expected) > 1 else 'input:unambiguous')
                if len(expected) > 1:
                    ctx.nontrivial([gtext, ka, mp, w, lx], sample={'grammar': gtext, 'text': w, 'lexer': lx, 'keep_all_tokens': ka,
                                                                   'maybe_placeholders': mp, 'derivations': len(expected)})
            else:
                for x in list(got)[:40]:
                    try:
                        ok = ref.validate(x)
                    except gram.TooMany:
                        ctx.label('validation budget exhausted (skipped)'); continue
                    if not ok:
                        raise Violation('a tree of the explicit result is not a derivation of the input (cyclic grammar)', grammar=gtext, text=w,
                                        lexer=lx, keep_all_tokens=ka, maybe_placeholders=mp, tree=gram.show(x))
                ctx.label('cyclic:trees-validated')
                if len(got) > 1:
                    ctx.nontrivial([gtext, ka, mp, w, lx, 'cyclic'], sample={'grammar': gtext, 'text': w, 'lexer': lx, 'cyclic': True, 'trees': len(got)})
            # the documented utility must agree with the plain expansion
            if isinstance(t, Tree):
                try:
                    lib = lib_collapse(t, named)
                except Exception as e:
                    raise Violation('CollapseAmbiguities raised %s' % type(e).__name__, grammar=gtext, text=w, lexer=lx, maybe_placeholders=mp,
                                    collapse=True, error=str(e)[:200])
                if expected is not None: lib = {gram.strip_pos(x) for x in lib}
                if lib != got:
                    raise Violation('CollapseAmbiguities disagrees with expanding every _ambig node', grammar=gtext, text=w, lexer=lx, collapse=True,
                                    only_lib=[gram.show(x) for x in list(lib - got)[:2]], only_plain=[gram.show(x) for x in list(got - lib)[:2]])


def strat(o, fam, n, max_len):
    return st.tuples(gramgen.grammar_and_inputs(o, max_len=max_len, n=n), st.integers(0, 4), st.integers(0, 3)).map(
        lambda t: {'g': t[0]['g'], 'texts': t[0]['texts'], 'keep_all': t[1] == 0, 'placeholders': t[2] != 0, 'family': fam})


def phases(tier):
    k = 12 if tier == 'thorough' else 1
    return [Phase('acyclic-tok', 'hypothesis', strategy=strat(O_ACYC, 'tok', 3, 8), max_examples=32000 * k),
            Phase('acyclic-ovl', 'hypothesis', strategy=strat(O_ACYC_OVL, 'ovl', 3, 8), max_examples=16000 * k),
            Phase('acyclic-re-dynamic-complete', 'hypothesis', strategy=strat(O_ACYC_RE, 're', 3, 7), max_examples=12000 * k),
            Phase('any-tok', 'hypothesis', strategy=strat(O_ANY, 'tok', 3, 3), max_examples=16000 * k)]
