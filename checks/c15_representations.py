"""C15  Input representation does not matter: str, bytes and TextSlice agree."""
from hypothesis import strategies as st
from vlib.harness import Phase, Violation
from vlib import gram, gramgen, coords
from lark import Lark, Token, Tree
from lark.utils import TextSlice
from lark.exceptions import UnexpectedInput, GrammarError, LexError
from checks.c06_positions import flat_cases, flat_grammar

ID = 'C15'
LEVEL = 'exploration'
RULE = ('C06\'s flat newline-capable grammars and generated structured LALR grammars (one terminal is a newline) x ASCII inputs x '
        'windows [a,b) of prefix+input+suffix with newlines in the prefix. Differential: str vs bytes(use_bytes) for basic, contextual, '
        'dynamic, dynamic_complete; TextSlice window vs the extracted substring for basic/contextual (str and bytes): same tree shape, '
        'token types and values, offsets shifted by the window start, lines/columns those of the buffer (recomputed from offsets), same '
        'error class and position; dynamic lexers must raise the documented TypeError for a proper window. Non-trivial = window with a '
        'newline in the prefix before the window or inside it, or a str/bytes pair whose input contains a newline; distinct = (grammar, '
        'engine, buffer, window)')
ASSUMPTIONS = ['only ASCII input (the property is stated for ASCII)', 'results of a window are compared with lark\'s own result on the extracted substring (differential), coordinates with vlib/coords.py']

O_STRUCT = gramgen.Opts(terms='tok', max_rules=4, shaping=True, ignore=True, acyclic=True, nonnull=True,
                        tok_sets=[['a', '\n', 'b', 'c'], ['aa', 'ab', '\n', 'c']])
ATTRS = ('start_pos', 'end_pos', 'line', 'column', 'end_line', 'end_column')


def dec(v):
    return v.decode('ascii') if isinstance(v, bytes) else str(v)


def norm(t, shift=0, buf=None):
    """structure with positions; if buf is given, line/column are replaced by coordinates recomputed on buf after shifting"""
    if t is None: return None
    if isinstance(t, Tree):
        m = t.meta
        mm = None
        if not m.empty:
            mm = _pos(m, shift, buf)
        return ('N', str(t.data), mm, tuple(norm(c, shift, buf) for c in t.children))
    if isinstance(t, Token):
        return ('T', t.type, dec(t.value), _pos(t, shift, buf))
    return ('V', repr(t))


def _pos(o, shift, buf):
    sp = o.start_pos + shift; ep = o.end_pos + shift
    if buf is None:
        return (sp, ep, o.line, o.column, o.end_line, o.end_column)
    nl = b'\n' if isinstance(buf, bytes) else '\n'
    return (sp, ep) + coords.line_col(buf, sp, nl) + coords.line_col(buf, ep, nl)


def outcome(p, data, shift=0, buf=None):
    try:
        return ('ok', norm(p.parse(data), shift, buf))
    except UnexpectedInput as e:
        pos = getattr(e, 'pos_in_stream', None)
        tok = getattr(e, 'token', None)
        if tok is not None and pos is None:
            pos = tok.start_pos
        line, col = getattr(e, 'line', None), getattr(e, 'column', None)
        if pos is not None and pos >= 0:
            pos += shift
            if buf is not None and line is not None and line > 0:
                line, col = coords.line_col(buf, pos, b'\n' if isinstance(buf, bytes) else '\n')
        return ('err', type(e).__name__, pos, line, col, getattr(tok, 'type', None))


def check_flat(case, ctx):
    g = flat_grammar(case)
    _run(g, case['texts'], case.get('windows', []), ctx, {})


def check_struct(case, ctx):
    g = gram.render_grammar(case['g'])
    _run(g, case['texts'], case.get('windows', []), ctx, {'propagate_positions': True})


def _run(g, texts, windows, ctx, opts):
    engines = [('lalr', 'basic'), ('lalr', 'contextual'), ('earley', 'dynamic'), ('earley', 'dynamic_complete')]
    ps = {}
    for parser, lexer in engines:
        try:
            ps[(parser, lexer, False)] = Lark(g, parser=parser, lexer=lexer, propagate_positions=True)
            ps[(parser, lexer, True)] = Lark(g, parser=parser, lexer=lexer, propagate_positions=True, use_bytes=True)
        except (GrammarError, LexError) as e:
            ctx.discard('construction: ' + str(e)[:40])
            ps.pop((parser, lexer, False), None)
    for w in texts:
        b = w.encode('ascii')
        for parser, lexer in engines:
            if (parser, lexer, True) not in ps: continue
            o1 = outcome(ps[(parser, lexer, False)], w)
            o2 = outcome(ps[(parser, lexer, True)], b)
            if o1 != o2:
                raise Violation('str and bytes results differ', grammar=g, text=w, engine=[parser, lexer], str_result=str(o1)[:400], bytes_result=str(o2)[:400])
            ctx.label('str-vs-bytes:' + o1[0])
            if '\n' in w.strip('\n'):
                ctx.nontrivial([g, parser, lexer, w, 'sb'], sample={'grammar': g, 'text': w, 'engine': parser + '/' + lexer, 'compare': 'str vs bytes'})
    for pre, w, suf in windows:
        buf = pre + w + suf; a = len(pre); e_ = a + len(w)
        for use_bytes in (False, True):
            data = buf.encode('ascii') if use_bytes else buf
            sub = w.encode('ascii') if use_bytes else w
            for parser, lexer in engines:
                p = ps.get((parser, lexer, use_bytes))
                if p is None: continue
                if parser == 'earley':
                    if pre or suf:
                        try:
                            p.parse(TextSlice(data, a, e_))
                        except TypeError:
                            ctx.label('window:dynamic-typeerror'); continue
                        except UnexpectedInput:
                            pass
                        raise Violation('dynamic lexer accepted a proper TextSlice window instead of raising the documented TypeError', grammar=g, buffer=buf, window=[a, e_])
                    continue
                want = outcome(p, sub, shift=a, buf=data)
                try:
                    got = outcome(p, TextSlice(data, a, e_), shift=0, buf=None)
                except Exception as ex:
                    raise Violation('TextSlice parse raised %s' % type(ex).__name__, grammar=g, buffer=buf, window=[a, e_], error=str(ex)[:200])
                if got != want:
                    no_token = want[0] == 'err' and want[5] == '$END' and got[0] == 'err' and got[5] == '$END' and got[2:5] == (0, 1, 1)
                    raise Violation('window result differs from the substring result shifted into buffer coordinates', grammar=g, buffer=buf, window=[a, e_],
                                    engine=[parser, lexer], bytes=use_bytes, window_result=str(got)[:400], shifted_substring_result=str(want)[:400],
                                    end_error_without_token=no_token)
                ctx.label('window:' + got[0])
                if '\n' in pre or '\n' in w:
                    ctx.nontrivial([g, parser, lexer, buf, a, e_, use_bytes], sample={'grammar': g, 'buffer': buf, 'window': [a, e_], 'engine': parser + '/' + lexer, 'bytes': use_bytes})


KNOWN = {'C15-window-without-token-end-error-coordinates': lambda case, v: bool(v.detail.get('end_error_without_token'))}

PADS = ['', 'a', '\n', 'b\n', '\n\na ', 'ab\nb', ' ', 'x\n\n']


@st.composite
def with_windows(draw, base, maker):
    case = draw(base)
    wins = []
    for w in case['texts'][:3]:
        wins.append([draw(st.sampled_from(PADS)), w, draw(st.sampled_from(PADS))])
    case = dict(case); case['windows'] = wins
    return case


def struct_base():
    return gramgen.grammar_and_inputs(O_STRUCT, max_len=9, n=4).map(lambda c: {'g': c['g'], 'texts': c['texts']})


def phases(tier):
    k = 12 if tier == 'thorough' else 1
    return [Phase('flat', 'hypothesis', strategy=with_windows(flat_cases(), None), max_examples=8000 * k, check=check_flat),
            Phase('structured', 'hypothesis', strategy=with_windows(struct_base(), None), max_examples=8000 * k, check=check_struct)]


check = check_flat
