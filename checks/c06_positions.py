"""C06  Token and tree positions are exact source coordinates."""
from hypothesis import strategies as st
from vlib.harness import Phase, Violation
from vlib import gram, gramgen, coords
from lark import Lark, Token, Tree
from lark.exceptions import UnexpectedInput, GrammarError, LexError

ID = 'C06'
LEVEL = 'exploration'
RULE = ('(1) flat grammars start: (T0|T1|..)* over terminals drawn from a family of spellings that can match a newline ("\\n", /\\n/, \\s, '
        '[^x], . with s flag, (?s:.), \\D, \\W, [\\x00-\\x20], [\\t-\\r], \\x0a, \\012, [\\s\\S]) and ordinary ones, kept and %ignore\'d, x inputs '
        'over {a,b,space,\\n,\\r,\\t} x {basic, contextual, dynamic, dynamic_complete} x str/bytes: every token must satisfy '
        'text[start_pos:end_pos]==token, (line,column)==coordinates of start_pos recomputed from the text, end coordinates per the '
        'lexer family\'s convention. (2) generated structured grammars (all shaping features; one terminal is a newline) with '
        'propagate_positions: every node\'s meta must equal the extent of all tokens its rule matched (filtered ones included) '
        'computed on the reference derivation, with line/column consistent. Non-trivial = input in which a token (kept or ignored) '
        'contains a newline that precedes another token; distinct = (grammar, lexer, representation, input)')
ASSUMPTIONS = ['end convention: basic/contextual report the coordinates of offset end_pos; the dynamic lexers report (line of the last character, its column + 1)',
               'meta extents come from the derivation enumerator of vlib/gram.py run in spans mode; ambiguous inputs are checked by membership',
               'under the dynamic lexers Token.end_* of multi-line tokens is compared only for tokens without an inner newline (convention undocumented there)']

NL_TERMS = [('str', '\n', ''), ('re', r'\n', ''), ('re', r'\s+', ''), ('re', r'[^ab]', ''), ('re', r'.', 's'), ('re', r'(?s:.)', ''),
            ('re', r'\D+', ''), ('re', r'\W+', ''), ('re', r'[\x00-\x20]+', ''), ('re', r'[\t-\r]+', ''), ('re', r'\x0a', ''),
            ('re', r'\012', ''), ('re', r'[\s\S]', ''), ('re', r'(\r?\n)+', ''), ('re', r'\n[ \t]*', ''), ('re', r'[^\S ]+', ''),
            # flag combinations: every subset of i, m, s, x that contains s must still be seen as newline-capable
            ('re', r'.', 'is'), ('re', r'a.*?b', 'si'), ('re', r'.+?b', 'ms'), ('re', r'.', 'ims'), ('re', r'.', 'sx'), ('re', r'b.', 'sm')]
PLAIN_TERMS = [('str', 'a', ''), ('re', r'a+', ''), ('str', 'b', ''), ('re', r'[ab]+', ''), ('str', ' ', ''), ('re', r' +', ''), ('str', 'ab', ''),
               ('str', '\t', ''), ('re', r'b+', '')]
ALPHA = ['a', 'b', ' ', '\n', '\r', '\t', '\n', 'a', '\n']


@st.composite
def flat_cases(draw):
    k = draw(st.integers(1, 2)); m = draw(st.integers(1, 3))
    idx = draw(st.lists(st.integers(0, len(NL_TERMS) - 1), min_size=k, max_size=k, unique=True))
    idp = draw(st.lists(st.integers(0, len(PLAIN_TERMS) - 1), min_size=m, max_size=m, unique=True))
    pats = [NL_TERMS[i] for i in idx] + [PLAIN_TERMS[i] for i in idp]
    terms = [{'name': 'T%d' % i, 'prio': None, 'pat': {'kind': p[0], 'value': p[1], 'flags': p[2]}} for i, p in enumerate(pats)]
    nign = draw(st.integers(0, min(2, len(terms) - 1)))
    ign = [t['name'] for t in draw(st.permutations(terms))[:nign]]
    texts = [''.join(draw(st.lists(st.sampled_from(ALPHA), max_size=10))) for _ in range(4)]
    return {'terms': terms, 'ignore': ign, 'texts': texts, 'bytes': draw(st.booleans())}


def flat_grammar(case):
    kept = [t['name'] for t in case['terms'] if t['name'] not in case['ignore']]
    lines = ['start: (%s)*' % ' | '.join(kept)]
    for t in case['terms']:
        lines.append('%s: %s' % (t['name'], gram.render_pat(t['pat'])))
    for i in case['ignore']: lines.append('%ignore ' + i)
    return '\n'.join(lines) + '\n'


def check_token(tok, data, family, where, g, w, extra):
    nl = b'\n' if isinstance(data, bytes) else '\n'
    val = tok.value
    sp, ep = tok.start_pos, tok.end_pos
    if sp is None or ep is None or data[sp:ep] != val:
        raise Violation('text[start_pos:end_pos] != token', grammar=g, text=w, where=where, token=[tok.type, repr(val), sp, ep], **extra)
    if (tok.line, tok.column) != coords.line_col(data, sp, nl):
        raise Violation('line/column are not the coordinates of start_pos', grammar=g, text=w, where=where, token=[tok.type, repr(val), sp],
                        got=[tok.line, tok.column], want=list(coords.line_col(data, sp, nl)), **extra)
    if family == 'basic':
        want = coords.line_col(data, ep, nl)
        if (tok.end_line, tok.end_column) != want:
            raise Violation('end_line/end_column are not the coordinates of end_pos', grammar=g, text=w, where=where, token=[tok.type, repr(val), sp, ep],
                            got=[tok.end_line, tok.end_column], want=list(want), **extra)
    else:
        # dynamic family: (line of the last character, its column + 1)
        l, c = coords.line_col(data, ep - 1, nl)
        want = (l, c + 1)
        alt = coords.line_col(data, ep, nl)
        if (tok.end_line, tok.end_column) not in (want, alt) or ((tok.end_line, tok.end_column) != want and nl not in val[-1:]):
            raise Violation('end_line/end_column do not denote end_pos (dynamic convention)', grammar=g, text=w, where=where,
                            token=[tok.type, repr(val), sp, ep], got=[tok.end_line, tok.end_column], want=list(want), **extra)


def tokens_of(t):
    if isinstance(t, Tree):
        for c in t.children:
            for x in tokens_of(c): yield x
    elif isinstance(t, Token):
        yield t


def check_flat(case, ctx):
    g = flat_grammar(case)
    use_bytes = case['bytes']
    engines = [('lalr', 'basic'), ('lalr', 'contextual'), ('earley', 'dynamic'), ('earley', 'dynamic_complete')]
    parsers = {}
    for parser, lexer in engines:
        try:
            parsers[(parser, lexer)] = Lark(g, parser=parser, lexer=lexer, use_bytes=use_bytes, propagate_positions=True)
        except (GrammarError, LexError) as e:
            ctx.discard('construction: %s' % str(e)[:40]); continue
        except Exception as e:
            raise Violation('construction raised %s' % type(e).__name__, grammar=g, error=str(e)[:300])
    for w in case['texts']:
        data = w.encode('ascii') if use_bytes else w
        for (parser, lexer), p in parsers.items():
            fam = 'basic' if parser == 'lalr' else 'dynamic'
            extra = {'engine': [parser, lexer], 'bytes': use_bytes}
            if fam == 'basic':
                try:
                    toks = list(p.lex(data, dont_ignore=True)) if lexer == 'basic' else None
                except UnexpectedInput:
                    toks = None
                for t in toks or ():
                    check_token(t, data, fam, 'lex(dont_ignore)', g, w, extra)
            try:
                tree = p.parse(data)
            except UnexpectedInput:
                ctx.label('input:rejected'); continue
            except Exception as e:
                raise Violation('parse raised %s' % type(e).__name__, grammar=g, text=w, error=str(e)[:300], **extra)
            n = 0
            for t in tokens_of(tree):
                check_token(t, data, fam, 'tree', g, w, extra); n += 1
            if n and not tree.meta.empty:
                first = next(tokens_of(tree)); last = list(tokens_of(tree))[-1]
                m = tree.meta
                if (m.start_pos, m.line, m.column) != (first.start_pos, first.line, first.column) or m.end_pos != last.end_pos:
                    raise Violation('meta of the root does not span first..last token', grammar=g, text=w, got=[m.start_pos, m.end_pos], **extra)
            ctx.label('flat:checked', 'bytes' if use_bytes else 'str')
            nl = '\n'
            k = w.find(nl)
            if 0 <= k and w[k + 1:].strip('\n \t\r'):
                ctx.nontrivial([g, parser, lexer, use_bytes, w], sample={'grammar': g, 'text': w, 'engine': parser + '/' + lexer, 'bytes': use_bytes})


# ------------------------------------------------------------------ tree meta on structured grammars
O_META = gramgen.Opts(terms='tok', max_rules=4, shaping=True, templates=True, ignore=True, acyclic=True,
                      tok_sets=[['a', '\n', 'b', 'c'], ['aa', 'ab', '\n', 'c'], ['x', '\n', 'yy', 'z']])


# pass-through chains of ?-rules (precedence climbing): a tree inlined by one ?-rule together with filtered delimiters is inlined
# again by further single-child ?-rules before it becomes the first/last child of a real node
O_META_UNIT = gramgen.Opts(terms='tok', max_rules=6, shaping=True, ignore=True, acyclic=True, unit_bias=True, max_alts=3, max_items=3, depth=1,
                           tok_sets=[['a', '\n', 'b', 'c'], ['x', '\n', 'yy', 'z']])


def _r(name, alts, mod=''):
    return {'name': name, 'mod': mod, 'prio': None, 'params': [], 'alts': [{'items': a, 'alias': al} for a, al in alts]}


EXPR_G = {'rules': [_r('start', [([['n', 'sum']], None)]),
                    _r('sum', [([['n', 'product']], None), ([['n', 'sum'], ['lit', '+', ''], ['n', 'product']], 'add')], '?'),
                    _r('product', [([['n', 'atom']], None), ([['n', 'product'], ['lit', '*', ''], ['n', 'atom']], 'mul')], '?'),
                    _r('atom', [([['t', 'N']], None), ([['lit', '(', ''], ['n', 'sum'], ['lit', ')', '']], None), ([['lit', '-', ''], ['n', 'atom']], 'neg')], '?')],
          'terms': [{'name': 'N', 'prio': None, 'pat': {'kind': 'str', 'value': '1', 'flags': ''}, 'ex': ['1']},
                    {'name': 'WS', 'prio': None, 'pat': {'kind': 're', 'value': '[ \\n]', 'flags': ''}, 'ex': [' ', '\n']}],
          'ignore': ['WS']}


@st.composite
def expr_cases(draw):
    def e(d):
        c = draw(st.integers(0, 6)) if d > 0 else 0
        if c <= 1: return '1'
        if c == 2: return '(' + e(d - 1) + ')'
        if c == 3: return '-' + e(d - 1)
        sp = draw(st.sampled_from(['', ' ', '\n', ' \n']))
        return e(d - 1) + sp + draw(st.sampled_from(['+', '*'])) + sp + e(d - 1)
    return {'g': EXPR_G, 'texts': [e(3) for _ in range(4)], 'keep_all': False, 'placeholders': True}


def norm_meta(t, named):
    if t is None: return None
    if isinstance(t, Tree):
        m = t.meta
        span = None if m.empty else (m.start_pos, m.end_pos)
        return ('N', str(t.data), tuple(norm_meta(c, named) for c in t.children), span)
    ty = t.type if t.type in named else None
    return ('T', ty, str(t.value), t.start_pos)


def meta_consistent(t, text, g, w, extra):
    if isinstance(t, Tree):
        m = t.meta
        if not m.empty:
            if (m.line, m.column) != coords.line_col(text, m.start_pos):
                raise Violation('meta.line/column are not the coordinates of meta.start_pos', grammar=g, text=w, node=str(t.data),
                                got=[m.line, m.column], want=list(coords.line_col(text, m.start_pos)), **extra)
            if (m.end_line, m.end_column) != coords.line_col(text, m.end_pos) and extra['engine'][0] == 'lalr':
                raise Violation('meta.end_line/end_column are not the coordinates of meta.end_pos', grammar=g, text=w, node=str(t.data),
                                got=[m.end_line, m.end_column], want=list(coords.line_col(text, m.end_pos)), **extra)
        for c in t.children: meta_consistent(c, text, g, w, extra)


def strip_spans(t):
    if t is None or t[0] != 'N': return t
    return ('N', t[1], tuple(strip_spans(c) for c in t[2]))


def check_meta(case, ctx):
    g = case['g']; ka = case['keep_all']; mp = case['placeholders']
    if gram.colliding_alternatives(g):
        ctx.discard('colliding alternatives'); return
    gtext = gram.render_grammar(g)
    named = {t['name'] for t in g['terms']}
    conc = gram.Concrete(g)
    parsers = {}
    for parser, lexer in (('lalr', 'basic'), ('lalr', 'contextual'), ('earley', 'basic'), ('earley', 'dynamic')):
        try:
            parsers[(parser, lexer)] = Lark(gtext, parser=parser, lexer=lexer, propagate_positions=True, keep_all_tokens=ka, maybe_placeholders=mp)
        except GrammarError as e:
            if 'Rules defined twice' in str(e):
                ctx.discard('GrammarError: rules defined twice'); return
            if parser == 'lalr': continue
            raise Violation('construction raised GrammarError', grammar=gtext, error=str(e)[:300])
    for w in case['texts']:
        ref = gram.Ref(g, w, 'exact', keep_all=ka, placeholders=mp, concrete=conc, spans=True)
        if not ref.accepts(): continue
        try:
            trees = set(ref.trees())
        except (gram.TooMany, gram.Cyclic):
            continue
        for (parser, lexer), p in parsers.items():
            extra = {'engine': [parser, lexer], 'keep_all_tokens': ka, 'maybe_placeholders': mp}
            try:
                t = p.parse(w)
            except UnexpectedInput:
                continue        # acceptance is decided by C01/C02
            except Exception as e:
                raise Violation('parse with propagate_positions raised %s' % type(e).__name__, grammar=gtext, text=w, error=str(e)[:200], **extra)
            nt = norm_meta(t, named)
            if nt not in trees:
                same_shape = [x for x in trees if strip_spans(x) == strip_spans(nt)]
                if not same_shape:
                    continue    # shaping is decided by C03
                # an ambiguous input has several derivations of the same shape: report against the closest one (a known deviation
                # explains the difference if it does so for one of them)
                has_q = any('?' in r['mod'] for r in g['rules'])
                same_shape.sort(key=lambda c: (not (_has_collapsed_token_case(nt, c) or _only_empty_adopting(nt, c)), show_spans(c)))
                raise Violation('node meta is not the extent of the tokens its rule matched', grammar=gtext, text=w,
                                got=show_spans(nt), want=show_spans(same_shape[0]), collapsed_token=_has_collapsed_token_case(nt, same_shape[0]) and has_q,
                                empty_child_adopts=_only_empty_adopting(nt, same_shape[0]) and has_q, **extra)
            meta_consistent(t, w, gtext, w, extra)
            ctx.label('meta:checked')
            if '\n' in w.strip('\n') and isinstance(t, Tree) and len(t.children) > 0:
                ctx.nontrivial([gtext, parser, lexer, ka, mp, w], sample={'grammar': gtext, 'text': w, 'engine': parser + '/' + lexer, 'tree': show_spans(nt)[:300]})


def show_spans(t):
    if t is None: return 'None'
    if t[0] == 'T': return '%r@%s' % (t[2], t[3])
    return '%s%s(%s)' % (t[1], list(t[3]) if t[3] else '[]', ', '.join(show_spans(c) for c in t[2]))


def _diff_kinds(got, want):
    """classifies every node whose extent differs: 'adopt' (reference extent empty but the node carries a meta), 'token' (the first or
    last positioned child is a token -- or the first or last child is a None placeholder -- and the node's extent lies inside the
    reference extent or is empty: filtered siblings of a ?-rule that collapsed to that token/placeholder were lost), 'child' (only inherited from a differing child), 'other'"""
    kinds = set()
    def walk(a, b):
        if a is None or a[0] != 'N': return
        if a[3] != b[3]:
            kids = [k for k in a[2] if k is not None and (k[0] == 'T' or (k[0] == 'N' and k[3] is not None))]
            if b[3] is None and a[3] is not None:
                kinds.add('adopt')
            elif b[3] is not None and ((kids and (kids[0][0] == 'T' or kids[-1][0] == 'T')) or (a[2] and (a[2][0] is None or a[2][-1] is None))) \
                    and (a[3] is None or (b[3][0] <= a[3][0] and a[3][1] <= b[3][1])):
                kinds.add('token')
            elif any(k is not None and kb is not None and k[0] == 'N' and k[3] != kb[3] for k, kb in zip(a[2], b[2])):
                kinds.add('child')
            else:
                kinds.add('other')
        for x, y in zip(a[2], b[2]): walk(x, y)
    walk(got, want)
    return kinds


def _has_collapsed_token_case(got, want):
    k = _diff_kinds(got, want)
    return 'token' in k and 'other' not in k


def _only_empty_adopting(got, want):
    k = _diff_kinds(got, want)
    return 'adopt' in k and 'other' not in k and 'token' not in k


KNOWN = {'C06-collapsed-token-loses-container-span': lambda case, v: bool(v.detail.get('collapsed_token')),
         'C06-empty-child-adopts-collapsed-rule-span': lambda case, v: bool(v.detail.get('empty_child_adopts'))}


def meta_strat(n, max_len, o=None):
    return st.tuples(gramgen.grammar_and_inputs(o or O_META, max_len=max_len, n=n), st.integers(0, 4), st.integers(0, 3)).map(
        lambda t: {'g': t[0]['g'], 'texts': t[0]['texts'], 'keep_all': t[1] == 0, 'placeholders': t[2] != 0})


def phases(tier):
    k = 12 if tier == 'thorough' else 1
    return [Phase('flat-newline-spellings', 'hypothesis', strategy=flat_cases(), max_examples=16000 * k, check=check_flat),
            Phase('tree-meta', 'hypothesis', strategy=meta_strat(3, 9), max_examples=12000 * k, check=check_meta),
            Phase('tree-meta-unit-chains', 'hypothesis', strategy=meta_strat(3, 9, O_META_UNIT), max_examples=8000 * k, check=check_meta),
            Phase('tree-meta-expression-grammar', 'hypothesis', strategy=expr_cases(), max_examples=2000 * k, check=check_meta)]


check = check_flat
