"""C09  Repetition and optional operators match exactly the stated counts.

Exhaustive enumeration of (n, m) pairs x item kinds x repetition counts k, plus Hypothesis-drawn
combinations of adjacent / nested repetitions.  Oracle: arithmetic (accept iff n <= k <= m),
children == k in order, no helper node visible.
"""
from hypothesis import strategies as st
from vlib.harness import Phase, Violation
from lark import Lark, Tree, Token
from lark.exceptions import UnexpectedInput, GrammarError

ID = 'C09'
LEVEL = 'exploration'
RULE = ('enumerate every pair 0<=n<=m<=M (M=70 quick, 200 thorough; x~n when n==m; plus Hypothesis-sampled pairs with m up to 400/700 checked at k around the bounds) for item kinds '
        '{named terminal, anonymous literal in !rule, rule, group (X Y), template argument, inside a terminal} under LALR for '
        'every k in 0..m+2 and under Earley for k around the bounds; plus generated sequences of 2-3 adjacent/nested '
        'repetitions with ? * + ~. Non-trivial = a distinct (kind, n, m) case with m >= 50 (compiled through factored helper '
        'rules) or a generated combination with >= 2 repetition operators whose bounds differ')
ASSUMPTIONS = ['terminals are distinct single characters so that the token count equals the repetition count',
               'inside terminals n=0 lets the terminal match the empty string (documented zero-width error), outside the property: not generated']

KINDS = ('term', 'anon', 'rule', 'group', 'tmpl', 'interm', 'altgroup', 'intermseq')


def grammar_for(kind, n, m):
    rep = '~%d' % n if n == m else '~%d..%d' % (n, m)
    if kind == 'term':
        return 'start: "<" X%s ">"\nX: "x"' % rep, 'x', 1
    if kind == 'anon':
        return '!start: "<" "x"%s ">"' % rep, 'x', 1
    if kind == 'rule':
        return 'start: "<" a%s ">"\na: "x"' % rep, 'x', 1
    if kind == 'group':
        return 'start: "<" (X Y)%s ">"\nX: "x"\nY: "y"' % rep, 'xy', 2
    if kind == 'tmpl':
        return 'start: "<" rp{X} ">"\nrp{it}: it%s\nX: "x"' % rep, 'x', 1
    if kind == 'altgroup':
        # the repeated item is an alternation: every occurrence must be free to pick its own alternative
        return 'start: "<" (X | Y)%s ">"\nX: "x"\nY: "y"' % rep, 'ALT', 1
    if kind == 'interm':
        return 'start: "<" T ">"\nT: "x"%s' % rep, 'x', 1
    if kind == 'intermseq':
        # inside a terminal, the repeated operand is a sequence: an alternation group followed by a literal ")" (the quantifier
        # must bind to the whole sequence)
        return 'start: "<" T ">"\nT: (("x" | "y") ")")%s' % rep, 'SEQ', 1
    raise ValueError(kind)


def ks_for(parser, n, m, sparse=False):
    if parser == 'lalr' and not sparse:
        return list(range(0, m + 3))
    ks = {0, 1, n - 1, n, n + 1, (n + m) // 2, m - 1, m, m + 1, m + 7}
    return sorted(k for k in ks if k >= 0)


def check_children(kind, t, k, per, case):
    ch = t.children
    if kind == 'anon':
        ch = ch[1:-1]
    if kind == 'tmpl':
        if len(ch) != 1 or not isinstance(ch[0], Tree) or ch[0].data != 'rp':
            raise Violation('template node missing', case=case, k=k, tree=repr(t)[:300])
        ch = ch[0].children
    if kind == 'intermseq':
        if len(ch) != 1 or str(ch[0]) != ''.join('xyyx'[i % 4] + ')' for i in range(k)):
            raise Violation('terminal repetition matched wrong text', case=case, k=k, tree=repr(t)[:300])
        return
    if kind == 'interm':
        if len(ch) != 1 or str(ch[0]) != 'x' * k:
            raise Violation('terminal repetition matched wrong text', case=case, k=k, tree=repr(t)[:300])
        return
    if len(ch) != k * per:
        raise Violation('wrong number of children', case=case, k=k, got=len(ch), want=k * per)
    for i, c in enumerate(ch):
        if isinstance(c, Tree):
            if str(c.data).startswith('_') or c.data != 'a':
                raise Violation('helper node visible in tree', case=case, k=k, node=str(c.data))
        else:
            want = 'xy'[i % per] if kind == 'group' else ('xyyx'[i % 4] if kind == 'altgroup' else 'x')
            if str(c) != want:
                raise Violation('children out of order', case=case, k=k, index=i, got=str(c))


def check(case, ctx):
    kind, n, m, parser = case['kind'], case['n'], case['m'], case['parser']
    g, unit, per = grammar_for(kind, n, m)
    try:
        p = Lark(g, parser=parser)
    except GrammarError as e:
        raise Violation('construction failed', case=case, error=str(e)[:300])
    except Exception as e:
        raise Violation('construction raised %s' % type(e).__name__, case=case, error=str(e)[:300])
    ctx.label('kind:' + kind, 'parser:' + parser, 'factored' if m >= 50 else 'naive')
    sparse = bool(case.get('sparse'))
    for k in ks_for(parser, n, m, sparse):
        txt = '<' + (''.join('xyyx'[i % 4] + ')' for i in range(k)) if unit == 'SEQ' else (unit * k if unit != 'ALT' else ('xyyx' * k)[:k])) + '>'
        try:
            t = p.parse(txt); acc = True
        except UnexpectedInput:
            acc = False
        except Exception as e:
            raise Violation('parse raised %s' % type(e).__name__, case=case, k=k, error=str(e)[:300])
        if acc != (n <= k <= m):
            raise Violation('accepted %d repetitions' % k if acc else 'rejected %d repetitions' % k, case=case, k=k)
        if acc:
            check_children(kind, t, k, per, case)
    if m >= 50:
        ctx.nontrivial(['pair', kind, n, m, parser], sample={'grammar': g, 'bounds': [n, m], 'parser': parser,
                                                            'k_tried': ks_for(parser, n, m)[:4] + ['...']})


def enum_pairs(M, parser, kinds):
    def gen(shard, nshards):
        i = 0
        for m in range(M, -1, -1):
            for n in range(m + 1):
                for kind in kinds:
                    if kind in ('interm', 'intermseq') and n == 0:
                        continue    # the terminal could match the empty string: outside the property
                    if kind == 'altgroup' and 5 < m < 50:
                        continue    # below the factoring threshold lark distributes the alternation into 2^k alternatives per count
                    i += 1
                    if i % nshards == shard:
                        yield {'kind': kind, 'n': n, 'm': m, 'parser': parser}
    return gen


# ---- generated combinations -----------------------------------------------------------
ITEMS = ['A', 'B', 'C']

def small_op():
    return st.one_of(
        st.just(['?']), st.just(['*']), st.just(['+']),
        st.tuples(st.integers(0, 5), st.integers(0, 4)).map(lambda t: ['~', t[0], t[0] + t[1]]),
        st.integers(0, 9).map(lambda n: ['~', n, n]))

def big_op():
    # around the factoring threshold (50); the range is kept narrow because below the threshold an n..m
    # repetition is expanded into m-n+1 alternatives and adjacent ones multiply (slow to build, not a property matter)
    return st.one_of(
        st.tuples(st.integers(44, 54), st.integers(0, 3)).map(lambda t: ['~', t[0], t[0] + t[1]]),
        st.tuples(st.integers(0, 6), st.integers(50, 60)).map(lambda t: ['~', t[0], t[1]]),
        st.integers(45, 64).map(lambda n: ['~', n, n]))

def combo_strategy():
    # a sequence of 2..3 repetition items over distinct terminals; at most one has large bounds
    shape = st.sampled_from(['one', 'grp', 'bracket'])
    @st.composite
    def parts(draw):
        n = draw(st.integers(2, 3))
        big = draw(st.integers(-1, n - 1))
        return [[draw(shape), draw(big_op() if i == big else small_op())] for i in range(n)]
    return st.fixed_dictionaries({
        'parts': parts(),
        'parser': st.sampled_from(['lalr', 'earley']),
        'counts': st.lists(st.integers(0, 64), min_size=3, max_size=3),
        'near': st.lists(st.integers(-1, 1), min_size=3, max_size=3),
        'use_near': st.booleans(),
    })


def bounds(op):
    if op[0] == '?': return 0, 1
    if op[0] == '*': return 0, None
    if op[0] == '+': return 1, None
    return op[1], op[2]


def render_op(op):
    if op[0] in '?*+': return op[0]
    return '~%d' % op[1] if op[1] == op[2] else '~%d..%d' % (op[1], op[2])


def check_combo(case, ctx):
    parts = case['parts']
    items = []
    letters = 'abc'
    for i, (shape, op) in enumerate(parts):
        T = ITEMS[i]
        if shape == 'one':
            items.append('%s%s' % (T, render_op(op)))
        elif shape == 'grp':
            items.append('(%s SEP)%s' % (T, render_op(op)))
        else:
            items.append('(%s)%s' % (T, render_op(op)))
    g = 'start: ' + ' "|" '.join(items) + '\n' + '\n'.join('%s: "%s"' % (ITEMS[i], letters[i]) for i in range(len(parts))) + '\nSEP: ","'
    try:
        p = Lark(g, parser=case['parser'])
    except Exception as e:
        raise Violation('construction raised %s' % type(e).__name__, case=case, grammar=g, error=str(e)[:300])
    ks = []
    for i, (shape, op) in enumerate(parts):
        lo, hi = bounds(op)
        top = hi if hi is not None else lo + 4
        if case['use_near']:
            # inside the bounds, except that part number counts[0]%3 is moved to an edge +/- near
            k = lo + case['counts'][i] % (top - lo + 1)
            if i == case['counts'][0] % 3:
                k = max(0, (lo if case['near'][1] < 0 else top) + case['near'][i])
        else:
            k = case['counts'][i]
        ks.append(k)
    txt = '|'.join((letters[i] + (',' if parts[i][0] == 'grp' else '')) * ks[i] for i in range(len(parts)))
    exp = all(bounds(op)[0] <= k and (bounds(op)[1] is None or k <= bounds(op)[1]) for (shape, op), k in zip(parts, ks))
    try:
        t = p.parse(txt); acc = True
    except UnexpectedInput:
        acc = False
    except Exception as e:
        raise Violation('parse raised %s' % type(e).__name__, case=case, grammar=g, text=txt, error=str(e)[:300])
    ctx.label('combo:accept' if exp else 'combo:reject', 'parser:' + case['parser'])
    if acc != exp:
        raise Violation('combination: accepted=%s expected=%s' % (acc, exp), grammar=g, text=txt, counts=ks)
    if acc:
        want = []
        for i, k in enumerate(ks):
            for _ in range(k):
                want.append(ITEMS[i])
                if parts[i][0] == 'grp':
                    want.append('SEP')
        got = [c.type if isinstance(c, Token) else 'TREE:' + str(c.data) for c in t.children]
        if got != want:
            raise Violation('combination: children differ', grammar=g, text=txt, got=got[:40], want=want[:40])
    if len({tuple(op) for _, op in parts}) >= 2:
        ctx.nontrivial(['combo', parts, ks, case['parser']], sample={'grammar': g, 'text': txt, 'counts': ks, 'accepted': acc})


def sampled_pairs(maxm):
    return st.tuples(st.integers(57, maxm), st.integers(0, 10**6), st.sampled_from(KINDS), st.sampled_from(['lalr', 'lalr', 'earley']),
                     st.booleans()).map(
        lambda t: {'kind': t[2], 'm': t[0], 'n': (t[0] if t[4] and t[1] % 3 == 0 else t[1] % (t[0] + 1)) or (1 if t[2] in ('interm', 'intermseq') else 0),
                   'parser': t[3], 'sparse': True})


def phases(tier):
    if tier == 'thorough':
        return [
            Phase('pairs-lalr-M200', 'enumerate', cases=enum_pairs(200, 'lalr', KINDS), exhaustive=True),
            Phase('pairs-earley-M120', 'enumerate', cases=enum_pairs(120, 'earley', ('term', 'rule', 'group', 'interm')), exhaustive=True),
            Phase('pairs-sampled-to-700', 'hypothesis', strategy=sampled_pairs(700), max_examples=12000),
            Phase('combos', 'hypothesis', strategy=combo_strategy(), max_examples=40000, check=check_combo),
        ]
    return [
        Phase('pairs-lalr-M70', 'enumerate', cases=enum_pairs(70, 'lalr', KINDS), exhaustive=True),
        Phase('pairs-earley-M56', 'enumerate', cases=enum_pairs(56, 'earley', ('term', 'group', 'interm')), exhaustive=True),
        Phase('pairs-sampled-to-400', 'hypothesis', strategy=sampled_pairs(400), max_examples=9600),
        Phase('combos', 'hypothesis', strategy=combo_strategy(), max_examples=4000, check=check_combo),
    ]
