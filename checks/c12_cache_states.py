"""C12  The grammar cache is only an optimisation, whatever the state of the cache file."""
import io, os, sys, tempfile, shutil, atexit, hashlib
from hypothesis import strategies as st
from vlib.harness import Phase, Violation, blame_lark
import lark
import lark.load_grammar
from lark import Lark
from lark.exceptions import UnexpectedInput, GrammarError

ID = 'C12'
LEVEL = 'fault_enumeration'
RULE = ('(1) exhaustive: for 3 grammars (cache files of 1-6 kB) every truncation offset of a valid cache file; (2) single-byte '
        'substitutions: every offset x 3 replacement values for three grammars in the quick tier (4 values thorough), '
        '(3) generated histories on one cache path: build(grammar_i, options_j), rewrite the imported module with other content, '
        'delete, truncate, corrupt bytes, swap in a file written for another grammar/options, switch import_paths to another directory or to a package (FromPackageLoader) that holds a same-named module, change lark.__version__ / '
        'sys.version_info. After every build: no exception; behaviour on probe inputs equals an uncached build with the current files; '
        'a following identical build is a cache hit (load_grammar patched to raise) with the same behaviour. Non-trivial = build that '
        'found the file damaged or stale; distinct = (grammar, file state)')
ASSUMPTIONS = ['behavioural equality is decided on 6-8 probe inputs per grammar chosen to separate the grammars from each other',
               '"replaced by a valid one" is decided by the next identical build being a cache hit, not by byte equality (two rebuilds legitimately differ in bytes)']

_tmp = None


def tmpdir():
    global _tmp
    if _tmp is None:
        _tmp = tempfile.mkdtemp(prefix='c12-')
        atexit.register(shutil.rmtree, _tmp, True)
    return _tmp


GRAMMARS = [
    ('json-ish', 'start: value\n?value: "[" [value ("," value)*] "]" | "{" [pair ("," pair)*] "}" | STRING | NUMBER | "true" -> t | "null" -> n\n'
                 'pair: STRING ":" value\nSTRING: /"[a-z]*"/\nNUMBER: /[0-9]+/\n%ignore " "\n',
     ['[1,2]', '{"a":[true,null]}', '"hello"', '[1,', 'true', '{"a" 1}', '[[[]]]', '12 13']),
    ('hello', 'start: GREETING NAME+ "!"?\nGREETING: "hello" | "jello"\nNAME: /[a-z]+/\n%ignore " "\n',
     ['hello world', 'jello x y !', 'hello', 'world hello', 'hello world !!', 'jello']),
    ('expr', 'start: sum\n?sum: product | sum "+" product -> add | sum "-" product -> sub\n?product: atom | product "*" atom -> mul\n'
             '?atom: NUMBER | "-" atom -> neg | "(" sum ")"\nNUMBER: /[0-9]+/\n%ignore " "\n',
     ['1+2*3', '(1+2)*3', '-1', '1+', '((1))', '2*(3-4)', '1 2']),
    ('imports', 'start: item+\nitem: m__dummy? pair\n%import mod.pair\n%import mod.dummy -> m__dummy\n%ignore " "\n',
     ['a:1', 'a:1 b:2', 'a:', 'x a:1', ':1', 'a:b']),
    # terminal priorities: the option priority=None (an explicit None that is NOT the default) switches them off
    ('prio', 'start: (KW | NAME)+\nKW.2: "if"\nNAME: /[a-z]+/\n%ignore " "\n', ['iffy', 'if x', 'x if', 'ifif', 'a b', '1']),
]
MODULES = ['pair: WORD ":" NUM\ndummy: "x"\nWORD: /[a-z]+/\nNUM: /[0-9]+/\n',
           'pair: WORD ":" (NUM | WORD)\ndummy: "x"\nWORD: /[a-z]+/\nNUM: /[0-9]+/\n',
           'pair: NUM ":" WORD\ndummy: "x" "x"\nWORD: /[a-z]+/\nNUM: /[0-9]+/\n']
OPTIONS = [{}, {'keep_all_tokens': True}, {'maybe_placeholders': False}, {'lexer': 'basic'}, {'propagate_positions': True}, {'priority': None}]
ALL_PROBES = sorted({w for _n, _g, ws in GRAMMARS for w in ws})


def norm(x):
    if x is None: return None
    if hasattr(x, 'children'):
        m = x.meta
        return ('N', str(x.data), None if m.empty else (m.start_pos, m.end_pos), tuple(norm(c) for c in x.children))
    return ('T', x.type, str(x), x.start_pos)


def behaviour(p):
    out = []
    for w in ALL_PROBES:
        try:
            out.append(('ok', norm(p.parse(w))))
        except UnexpectedInput as e:
            out.append(('err', type(e).__name__, getattr(e, 'pos_in_stream', None)))
    return out


class World(object):
    """one scratch directory with a module file and a cache path"""
    def __init__(self):
        # one fixed path per process: the options string that lark hashes contains import_paths and the cache path itself,
        # so files produced in one world are only comparable with builds at the very same paths
        self.dir = os.path.join(tmpdir(), 'w')
        shutil.rmtree(self.dir, ignore_errors=True)
        os.makedirs(self.dir)
        self.cache = os.path.join(self.dir, 'cache.bin')
        # two import directories holding a same-named module: switching between them changes only the import_paths option
        # third source: the same module inside a Python package, imported through FromPackageLoader (its files are recorded
        # in the cache under PackageResource keys, not paths)
        pkg = os.path.join(self.dir, 'c12pkg')
        self.dirs = [os.path.join(self.dir, 'a'), os.path.join(self.dir, 'b'), os.path.join(pkg, 'grammars')]
        for d_ in self.dirs: os.makedirs(d_)
        with open(os.path.join(pkg, '__init__.py'), 'w') as f: f.write('')
        if self.dir not in sys.path: sys.path.insert(0, self.dir)
        sys.modules.pop('c12pkg', None)
        import importlib; importlib.invalidate_caches()
        self.active = 2; self.set_module(1)
        self.active = 1; self.set_module(2)
        self.active = 0; self.set_module(0)
        self.version = None; self.pyver = None

    def set_module(self, i):
        self.module = i
        with open(os.path.join(self.dirs[self.active], 'mod.lark'), 'w') as f:
            f.write(MODULES[i])

    def build(self, gi, oi, cached, must_hit=False):
        _n, g, _w = GRAMMARS[gi]
        opts = dict(OPTIONS[oi])
        opts['import_paths'] = [lark.load_grammar.FromPackageLoader('c12pkg', ('grammars',))] if self.active == 2 else [self.dirs[self.active]]
        if cached: opts['cache'] = self.cache
        real_lg = lark.lark.load_grammar
        saved = (lark.__version__, sys.version_info)
        if self.version: lark.__version__ = self.version
        self.rebuilt = False
        if must_hit:
            def boom(*a, **k): raise AssertionError('not a cache hit')
            lark.lark.load_grammar = boom
        else:
            def counting(*a, **k):
                self.rebuilt = True
                return real_lg(*a, **k)
            lark.lark.load_grammar = counting
        try:
            return Lark(g, parser='lalr', **opts)
        finally:
            lark.lark.load_grammar = real_lg
            lark.__version__ = saved[0]

    def close(self):
        shutil.rmtree(self.dir, ignore_errors=True)


def verify_build(w, gi, oi, what, detail, expect_rebuild=False):
    """build with the cache in its present state; compare with an uncached build; then demand a hit"""
    want = behaviour(w.build(gi, oi, cached=False))
    try:
        p = w.build(gi, oi, cached=True)
    except Exception as e:
        raise Violation('construction with cache raised %s because of the file state (%s)' % (type(e).__name__, what), grammar=GRAMMARS[gi][0],
                        options=OPTIONS[oi], state=detail, error=str(e)[:300])
    if expect_rebuild and not w.rebuilt:
        raise Violation('a cache file written under another lark version was served (%s)' % what, grammar=GRAMMARS[gi][0], options=OPTIONS[oi], state=detail)
    got = behaviour(p)
    if got != want:
        diff = [(pw, a, b) for pw, a, b in zip(ALL_PROBES, got, want) if a != b][:2]
        raise Violation('cache served a parser that differs from the uncached build (%s)' % what, grammar=GRAMMARS[gi][0], options=OPTIONS[oi],
                        state=detail, first_differences=str(diff)[:600], served_wrong_parser=True)
    try:
        p2 = w.build(gi, oi, cached=True, must_hit=True)
    except AssertionError:
        raise Violation('after a build the cache file is not a valid cache for that build (next identical build is not a hit) (%s)' % what,
                        grammar=GRAMMARS[gi][0], options=OPTIONS[oi], state=detail)
    if behaviour(p2) != want:
        raise Violation('cache hit after rebuild differs from the uncached build (%s)' % what, grammar=GRAMMARS[gi][0], options=OPTIONS[oi], state=detail)


# ------------------------------------------------------------------ (1)+(2) enumerated file faults
def valid_bytes(gi, oi=0):
    w = World()
    try:
        w.build(gi, oi, cached=True)
        with open(w.cache, 'rb') as f: return f.read()
    finally:
        w.close()


def fault_cases(kind, gis, values):
    def gen(shard, nshards):
        i = 0
        for gi in gis:
            n = len(valid_bytes(gi))
            for off in range(n + (1 if kind == 'truncate' else 0)):
                for v in (values if kind == 'flip' else [None]):
                    i += 1
                    if i % nshards == shard:
                        yield {'kind': kind, 'gi': gi, 'off': off, 'value': v}
    return gen


_valid_cache = {}


@blame_lark
def check_fault(case, ctx):
    gi = case['gi']
    data = _valid_cache.get(gi)
    if data is None:
        data = _valid_cache[gi] = valid_bytes(gi)
    w = World()
    try:
        if case['kind'] == 'truncate':
            new = data[:case['off']]
            what = 'truncated at %d of %d' % (case['off'], len(data))
        else:
            off = case['off'] % len(data)
            b = (data[off] + case['value']) % 256
            if b == data[off]: b = (b + 1) % 256
            new = data[:off] + bytes([b]) + data[off + 1:]
            what = 'byte %d of %d changed from %d to %d' % (off, len(data), data[off], b)
        with open(w.cache, 'wb') as f: f.write(new)
        verify_build(w, gi, 0, what, {'kind': case['kind'], 'offset': case['off'], 'size': len(data), 'header_len': data.index(b'\n') + 1})
        ctx.label(case['kind'])
        ctx.nontrivial([case['kind'], gi, case['off'], case.get('value')], sample={'grammar': GRAMMARS[gi][0], 'fault': what})
    finally:
        w.close()


def _known_body_corruption(case, v):
    # a changed byte inside the pickled body that still unpickles is served: only the grammar/options hash in the header is verified
    d = v.detail
    st_ = d.get('state') or {}
    return bool(d.get('served_wrong_parser')) and st_.get('kind') in ('flip', 'corrupt') and st_.get('offset', 0) >= st_.get('header_len', 65)


KNOWN = {'C12-body-corruption-served': _known_body_corruption}


# ------------------------------------------------------------------ (3) histories on one cache path
@st.composite
def histories(draw):
    ops = []
    for _ in range(draw(st.integers(2, 8))):
        k = draw(st.sampled_from(['build', 'build', 'build', 'module', 'delete', 'truncate', 'corrupt', 'foreign', 'version', 'switchdir']))
        if k == 'build': ops.append(['build', draw(st.integers(0, len(GRAMMARS) - 1)), draw(st.integers(0, len(OPTIONS) - 1))])
        elif k == 'module': ops.append(['module', draw(st.integers(0, len(MODULES) - 1))])
        elif k == 'truncate': ops.append(['truncate', draw(st.integers(0, 4000))])
        elif k == 'corrupt': ops.append(['corrupt', draw(st.integers(0, 64)), draw(st.integers(1, 255))])   # inside the header line
        elif k == 'foreign': ops.append(['foreign', draw(st.integers(0, len(GRAMMARS) - 1)), draw(st.integers(0, len(OPTIONS) - 1)), draw(st.integers(0, len(MODULES) - 1))])
        elif k == 'version': ops.append(['version', draw(st.sampled_from([None, '9.9.9', '1.3.0']))])
        elif k == 'switchdir': ops.append(['switchdir', draw(st.integers(0, 2))])
        else: ops.append(['delete'])
    ops.append(['build', draw(st.integers(0, len(GRAMMARS) - 1)), draw(st.integers(0, len(OPTIONS) - 1))])
    return {'ops': ops}


@blame_lark
def check_history(case, ctx):
    w = World()
    damaged = False
    written_under = None      # lark version in effect when the file was last (re)written
    try:
        for op in case['ops']:
            k = op[0]
            if k == 'build':
                stale_version = os.path.exists(w.cache) and written_under != w.version
                verify_build(w, op[1], op[2], 'history', {'kind': 'history', 'ops': case['ops']}, expect_rebuild=stale_version)
                written_under = w.version
                ctx.label('build-after-damage' if damaged else 'build')
                if damaged:
                    ctx.nontrivial(case['ops'], sample={'ops': case['ops']})
                damaged = False
            elif k == 'module':
                w.set_module(op[1]); damaged = True
            elif k == 'delete':
                if os.path.exists(w.cache): os.remove(w.cache)
            elif k == 'truncate':
                if os.path.exists(w.cache):
                    with open(w.cache, 'rb') as f: d = f.read()
                    with open(w.cache, 'wb') as f: f.write(d[:op[1] % (len(d) + 1)])
                    damaged = True
            elif k == 'corrupt':
                if os.path.exists(w.cache):
                    with open(w.cache, 'rb') as f: d = bytearray(f.read())
                    if d:
                        i = op[1] % min(len(d), 65); d[i] = (d[i] + op[2]) % 256
                        with open(w.cache, 'wb') as f: f.write(bytes(d))
                        damaged = True
            elif k == 'foreign':
                # a complete, valid file written at this path for another grammar / option set / module content
                keep = w.module
                w.set_module(op[3]); w.build(op[1], op[2], cached=True); w.set_module(keep)
                written_under = w.version
                damaged = True
            elif k == 'switchdir':
                w.active = op[1]; damaged = True
            elif k == 'version':
                w.version = op[1]; damaged = True
    finally:
        w.close()


def phases(tier):
    if tier == 'thorough':
        return [Phase('truncation-all-offsets', 'enumerate', cases=fault_cases('truncate', [0, 1, 2, 3], None), exhaustive=True, check=check_fault),
                Phase('byte-substitution-all-offsets', 'enumerate', cases=fault_cases('flip', [0, 1, 2], [1, 128, 255, 17]), exhaustive=True, check=check_fault),
                Phase('histories', 'hypothesis', strategy=histories(), max_examples=12000, check=check_history)]
    return [Phase('truncation-all-offsets', 'enumerate', cases=fault_cases('truncate', [1, 2, 3], None), exhaustive=True, check=check_fault),
            Phase('byte-substitution-all-offsets', 'enumerate', cases=fault_cases('flip', [1, 2, 3], [1, 128, 255]), exhaustive=True, check=check_fault),
            Phase('histories', 'hypothesis', strategy=histories(), max_examples=6000, check=check_history)]


check = check_fault
