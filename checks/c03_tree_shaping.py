"""C03  Returned tree is the documented shaping of a derivation; engines agree on single-derivation inputs."""
import atexit
from hypothesis import strategies as st
from vlib.harness import Phase, Violation
from vlib import gram, gramgen, hsworker
from lark import Lark
from lark.exceptions import UnexpectedInput, GrammarError, ParseError

ID = 'C03'
LEVEL = 'exploration'
RULE = ('generated grammars over prefix-free string terminals using every shaping feature (anonymous literals, _TERMINALS, ?rules, '
        '!rules, _inlined rules, aliases, [..] incl. nested, x?, * + ~n..m, groups, templates, repeated sub-expressions across rules '
        'with different modifiers) x accepted inputs x {Earley basic/dynamic/dynamic_complete, LALR basic/contextual, CYK (also under '
        '3 other PYTHONHASHSEEDs)} x keep_all_tokens x maybe_placeholders; oracle = set of shaped trees of all derivations enumerated '
        'on the grammar AST by the documented rules. Non-trivial = accepted non-empty input whose grammar combines >= 2 different '
        'shaping features; distinct = distinct (grammar, options, input)')
ASSUMPTIONS = ['shaping rules are those of docs/tree_construction.md, docs/grammar.md and the Lark options doc-string, encoded in vlib/gram.py Ref.d_rule/d_item/size',
               'LALR is required to accept (and agree) only when lark built it and the independent LALR(1) construction (vlib/reflalr.py) finds no conflict',
               'x*, x+ and ~ with upper bound >= 50 directly inside [..] are not generated (placeholder count unspecified)',
               'inputs whose derivation set exceeds 2000 shaped trees or is infinite (cyclic) are skipped and counted']

OPTS = gramgen.Opts(terms='tok', max_rules=4, shaping=True, templates=True, ignore=True, lit_tmpl_args=True)
OPTS_NN = gramgen.Opts(terms='tok', max_rules=4, shaping=True, templates=True, ignore=True, nonnull=True, acyclic=True, lit_tmpl_args=True)
OPTS_UNIT = gramgen.Opts(terms='tok', max_rules=6, shaping=True, ignore=False, nonnull=True, acyclic=True, unit_bias=True, max_alts=2, max_items=2, depth=1)
ENGINES = [('earley', 'basic'), ('earley', 'dynamic'), ('earley', 'dynamic_complete'), ('lalr', 'basic'), ('lalr', 'contextual'), ('cyk', 'basic')]
_pool = None


def pool():
    global _pool
    if _pool is None:
        _pool = hsworker.Pool([1, 6, 13])
        atexit.register(_pool.close)
    return _pool


def features(g):
    f = set()
    def it(x):
        k = x[0]
        if k == 'lit': f.add('anon-literal')
        elif k == 't' and x[1].startswith('_'): f.add('_TERM')
        elif k == 'n' and x[1].startswith('_'): f.add('_rule')
        elif k == 'maybe':
            f.add('[..]')
        elif k == 'tmpl': f.add('template')
        elif k in ('star', 'plus', 'rep', 'opt'): f.add('ebnf-op')
        if k in ('grp', 'maybe'):
            for a in x[1]:
                for i in a: it(i)
        elif k in ('opt', 'star', 'plus', 'rep'): it(x[1])
        elif k == 'tmpl':
            for a in x[2]: it(a)
    for r in g['rules']:
        if '?' in r['mod']: f.add('?rule')
        if '!' in r['mod']: f.add('!rule')
        for a in r['alts']:
            if a.get('alias'): f.add('alias')
            for i in a['items']: it(i)
    return f


def lalr_conflict_free(parser):
    try:
        from vlib import reflalr
    except ImportError:
        return None
    return reflalr.conflict_free(parser.rules, [s for s in parser.options.start])


def check(case, ctx):
    g = case['g']; ka = case['keep_all']; mp = case['placeholders']
    gtext = gram.render_grammar(g)
    named = {t['name'] for t in g['terms']}
    conc = gram.Concrete(g)
    feats = features(g)
    parsers = {}
    cyclic = gram.analyse(g)['cyclic']
    for parser, lexer in ENGINES:
        if parser == 'cyk' and cyclic:
            # CYK's unit-rule elimination does not terminate on unit cycles (a: b, b: a | X): such grammars are not
            # "supported by" CYK; observed, recorded in DESIGN.md, outside this property
            ctx.label('cyk:skipped (derivation-cyclic grammar)'); continue
        try:
            parsers[(parser, lexer)] = Lark(gtext, parser=parser, lexer=lexer, keep_all_tokens=ka, maybe_placeholders=mp)
        except GrammarError as e:
            if 'Rules defined twice' in str(e):
                ctx.discard('GrammarError: rules defined twice (colliding optionals)'); return
            if parser == 'lalr':
                ctx.label('lalr:conflict'); continue
            raise Violation('construction raised GrammarError', grammar=gtext, engine=[parser, lexer], error=str(e)[:300])
        except ParseError as e:
            if parser == 'cyk' and "doesn't support empty rules" in str(e):
                ctx.label('cyk:empty-rules-unsupported'); continue
            raise Violation('construction raised ParseError', grammar=gtext, engine=[parser, lexer], error=str(e)[:300])
        except Exception as e:
            raise Violation('construction raised %s' % type(e).__name__, grammar=gtext, engine=[parser, lexer], error=str(e)[:300])
    lalr_ok = None
    for w in case['texts']:
        ref = gram.Ref(g, w, 'exact', keep_all=ka, placeholders=mp, concrete=conc)
        if not ref.accepts():
            ctx.label('input:rejected'); continue
        try:
            trees = ref.trees()
        except gram.Cyclic:
            ctx.label('input:cyclic-derivations (skipped)'); continue
        except gram.TooMany:
            ctx.label('input:too-many-derivations (skipped)'); continue
        single = len(trees) == 1
        ctx.label('input:single-tree' if single else 'input:several-trees')
        for (parser, lexer), p in parsers.items():
            try:
                t = p.parse(w)
            except (UnexpectedInput, ParseError) as e:
                if parser == 'earley':
                    raise Violation('earley rejects an input that has a derivation', grammar=gtext, text=w, engine=[parser, lexer])
                if parser == 'lalr':
                    if lalr_ok is None:
                        lalr_ok = lalr_conflict_free(p)
                    if lalr_ok:
                        raise Violation('conflict-free LALR rejects an input that has a derivation', grammar=gtext, text=w, engine=[parser, lexer])
                    ctx.label('lalr:rejects (shift/reduce grammar or oracle unavailable)'); continue
                raise Violation('cyk rejects an input that has a derivation', grammar=gtext, text=w, engine=[parser, lexer], error=str(e)[:200])
            except Exception as e:
                raise Violation('parse raised %s' % type(e).__name__, grammar=gtext, text=w, engine=[parser, lexer], error=str(e)[:300])
            nt = gram.norm_tree(t, named)
            if nt not in trees:
                raise Violation('tree is not the documented shaping of any derivation', grammar=gtext, text=w, engine=[parser, lexer],
                                keep_all_tokens=ka, maybe_placeholders=mp, got=gram.show(nt), expected_one_of=[gram.show(x) for x in list(trees)[:4]])
        # CYK in other processes with other hash seeds
        if ('cyk', 'basic') in parsers and case.get('hashseeds'):
            ans = pool().ask({'g': gtext, 'opts': {'parser': 'cyk', 'keep_all_tokens': ka, 'maybe_placeholders': mp}, 'texts': [w]})
            for seed, a in ans.items():
                if 'results' not in a:
                    raise Violation('cyk construction differs under PYTHONHASHSEED=%s' % seed, grammar=gtext, answer=a)
                r = a['results'][0][0]
                if r[0] != 'ok':
                    raise Violation('cyk under PYTHONHASHSEED=%s: %s on an input that has a derivation' % (seed, r), grammar=gtext, text=w, hashseed=seed)
                nt = _from_json(r[1], named)
                if nt not in trees:
                    raise Violation('cyk under PYTHONHASHSEED=%s: tree is not a shaping of a derivation' % seed, grammar=gtext, text=w, got=gram.show(nt))
            ctx.label('cyk:hashseeds-checked')
        if len(feats) >= 2 and w:
            ctx.nontrivial([gtext, ka, mp, w], sample={'grammar': gtext, 'text': w, 'keep_all_tokens': ka, 'maybe_placeholders': mp,
                                                       'features': sorted(feats), 'trees': [gram.show(x) for x in list(trees)[:2]]})
    for f in feats: ctx.label('feature:' + f)


def _from_json(t, named):
    if t is None: return None
    if t[0] == 'N': return ('N', t[1], tuple(_from_json(c, named) for c in t[2]))
    if t[0] == 'T': return ('T', t[1] if t[1] in named else None, t[2], t[3])
    return tuple(t)


def strat(n, max_len, hashseeds, opts=OPTS):
    return st.tuples(gramgen.grammar_and_inputs(opts, max_len=max_len, n=n), st.booleans(), st.integers(0, 3)).map(
        lambda t: {'g': t[0]['g'], 'texts': t[0]['texts'], 'keep_all': t[1], 'placeholders': t[2] != 0, 'hashseeds': hashseeds})


def phases(tier):
    if tier == 'thorough':
        return [Phase('shaping', 'hypothesis', strategy=strat(5, 12, False), max_examples=200000),
                Phase('shaping-nonnull', 'hypothesis', strategy=strat(5, 12, False, OPTS_NN), max_examples=200000),
                Phase('shaping-nonnull+cyk-hashseeds', 'hypothesis', strategy=strat(3, 8, True, OPTS_NN), max_examples=30000),
                Phase('unit-chains+cyk-hashseeds', 'hypothesis', strategy=strat(3, 8, True, OPTS_UNIT), max_examples=40000)]
    return [Phase('shaping', 'hypothesis', strategy=strat(4, 9, False), max_examples=8000),
            Phase('shaping-nonnull', 'hypothesis', strategy=strat(4, 9, False, OPTS_NN), max_examples=8000),
            Phase('shaping-nonnull+cyk-hashseeds', 'hypothesis', strategy=strat(3, 8, True, OPTS_NN), max_examples=1600),
            Phase('unit-chains+cyk-hashseeds', 'hypothesis', strategy=strat(3, 8, True, OPTS_UNIT), max_examples=4000)]
