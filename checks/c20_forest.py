"""C20  The parse forest (ambiguity='forest') encodes exactly the derivations; forest walks terminate."""
from hypothesis import strategies as st
from vlib.harness import Phase, Violation
from vlib import gram, gramgen, bnfderiv
from lark import Lark, Tree, Token
from lark.exceptions import UnexpectedInput, GrammarError
from lark.parsers.earley_forest import (TreeForestTransformer, ForestVisitor, ForestTransformer, ForestSumVisitor,
                                        ForestToParseTree, SymbolNode, PackedNode, TokenNode)

ID = 'C20'
LEVEL = 'exploration'
HANG_IS_VIOLATION = True
RULE = ('generated grammars (ambiguous, nullable, acyclic by construction and unrestricted/cyclic) over prefix-free string terminals x '
        'inputs x {basic, dynamic, dynamic_complete} with ambiguity="forest". Oracle: unshaped derivation trees enumerated by an '
        'independent chart-guided enumerator on the compiled BNF: TreeForestTransformer(resolve_ambiguity=False)+_ambig expansion must '
        'equal that set, resolve_ambiguity=True must be a member, is_ambiguous must be False for a single derivation; counting '
        'ForestVisitor (single_visit on/off), ForestSumVisitor, ForestTransformer and ForestToParseTree walks must terminate with '
        'balanced in/out events, and on_cycle must fire iff the input has infinitely many derivations. Non-trivial = accepted input '
        'whose forest has a packed-node choice (>= 2 derivations) or a cycle; distinct = (grammar, lexer, input)')
ASSUMPTIONS = ['token types for the enumerator come from the basic lexer on prefix-free fixed strings (all three lexers tokenise alike there)',
               'grammars where two alternatives expand to the same symbol sequence are discarded (merged by lark)',
               'ForestToPyDotVisitor is not exercised (needs pydot, not installed)']

O_ACYC = gramgen.Opts(terms='tok', max_rules=4, shaping=True, templates=True, ignore=True, acyclic=True)
O_ANY = gramgen.Opts(terms='tok', max_rules=3, shaping=True, templates=True, ignore=True, acyclic=False, max_alts=2, max_items=2, depth=1)


class Counting(ForestVisitor):
    """bare=True: a *_in method hands back the node itself when there is exactly one to schedule ("returning a node(s) will schedule them")"""
    LIMIT = 300000
    def __init__(self, single_visit, bare=False):
        ForestVisitor.__init__(self, single_visit=single_visit)
        self.bare = bare; self.n = 0
        self.c = {'sym_in': 0, 'sym_out': 0, 'int_in': 0, 'int_out': 0, 'pk_in': 0, 'pk_out': 0, 'tok': 0, 'cycle': 0}
    def _sched(self, children):
        self.n += 1
        if self.n > self.LIMIT: raise OverflowError('walk entered more than %d nodes' % self.LIMIT)
        lst = list(children)
        return lst[0] if self.bare and len(lst) == 1 else lst
    def visit_token_node(self, node): self.c['tok'] += 1
    def visit_symbol_node_in(self, node):
        self.c['sym_in'] += 1; return self._sched(node.children)
    def visit_symbol_node_out(self, node): self.c['sym_out'] += 1
    def visit_intermediate_node_in(self, node):
        self.c['int_in'] += 1; return self._sched(node.children)
    def visit_intermediate_node_out(self, node): self.c['int_out'] += 1
    def visit_packed_node_in(self, node):
        self.c['pk_in'] += 1; return self._sched(node.children)
    def visit_packed_node_out(self, node): self.c['pk_out'] += 1
    def on_cycle(self, node, path): self.c['cycle'] += 1


class CountingTransformer(ForestTransformer):
    def __init__(self):
        ForestTransformer.__init__(self)
        self.cycles = 0
    def on_cycle(self, node, path):
        self.cycles += 1
        return ForestTransformer.on_cycle(self, node, path)


def norm_unshaped(t, tokpos, _memo=None):
    if _memo is None: _memo = {}
    if isinstance(t, Tree):
        got = _memo.get(id(t))
        if got is None:
            got = _memo[id(t)] = ('N', str(t.data), tuple(norm_unshaped(c, tokpos, _memo) for c in t.children))
        return got
    if isinstance(t, Token):
        return ('T', t.type, tokpos.get(t.start_pos, -1))
    return ('V', repr(t))


def check(case, ctx):
    g = case['g']
    if gram.colliding_alternatives(g):
        ctx.discard('two alternatives of a rule expand to the same symbol sequence'); return
    gtext = gram.render_grammar(g)
    parsers = {}
    for lx in ('basic', 'dynamic', 'dynamic_complete'):
        try:
            parsers[lx] = Lark(gtext, parser='earley', lexer=lx, ambiguity='forest')
        except GrammarError as e:
            if 'Rules defined twice' in str(e):
                ctx.discard('GrammarError: rules defined twice'); return
            raise Violation('construction raised GrammarError', grammar=gtext, error=str(e)[:300])
        except Exception as e:
            raise Violation('construction raised %s' % type(e).__name__, grammar=gtext, error=str(e)[:300])
    pb = parsers['basic']
    cyc_static = bnfderiv.static_cyclic(pb.rules)
    ctx.label('grammar:cyclic' if cyc_static else 'grammar:acyclic')
    for w in case['texts']:
        try:
            toks = list(pb.lex(w))
        except UnexpectedInput:
            continue
        types = [t.type for t in toks]
        tokpos = {t.start_pos: i for i, t in enumerate(toks)}
        cyclic_input = False; expected = None
        try:
            expected = bnfderiv.enum_derivs(pb.rules, types, 'start', cap=1500 if len(w) > 4 else 3000)
            # derivations are counted by rule identity: two template instances (tp{A,B} / tp{B,B}) give equally named nodes
            n_derivs = len(bnfderiv.enum_derivs(pb.rules, types, 'start', cap=3000, with_rule_index=True)) if expected else 0
        except gram.Cyclic:
            cyclic_input = True
            if not cyc_static:
                raise RuntimeError('enumerator met a cycle in a statically acyclic BNF:\n%s\n%r' % (gtext, w))
        except gram.TooMany:
            ctx.label('input:too-many-derivations (skipped)'); continue
        if cyclic_input and len(types) > 3:
            ctx.label('input:cyclic and longer than 4 tokens (skipped: explicit expansion is exponential)'); continue
        if expected is not None and not expected:
            for lx, p in parsers.items():
                try:
                    p.parse(w)
                except UnexpectedInput:
                    continue
                raise Violation('forest returned for an input without derivation', grammar=gtext, text=w, lexer=lx)
            ctx.label('input:rejected'); continue
        for lx, p in parsers.items():
            try:
                root = p.parse(w)
            except UnexpectedInput:
                raise Violation('rejects an input that has a derivation', grammar=gtext, text=w, lexer=lx)
            except Exception as e:
                raise Violation('parse raised %s' % type(e).__name__, grammar=gtext, text=w, lexer=lx, error=str(e)[:300])
            # ---- walks terminate, events balance, cycles reported
            cycles_seen = []
            for sv, bare in ((False, False), (True, False), (False, True)):
                v = Counting(sv, bare)
                try:
                    v.visit(root)
                except OverflowError as e:
                    raise Violation('ForestVisitor walk does not terminate', grammar=gtext, text=w, lexer=lx, single_visit=sv, returns_bare_nodes=bare, error=str(e))
                except Exception as e:
                    raise Violation('ForestVisitor walk raised %s' % type(e).__name__, grammar=gtext, text=w, lexer=lx, single_visit=sv, returns_bare_nodes=bare, error=str(e)[:300])
                c = v.c
                if c['sym_in'] != c['sym_out'] or c['int_in'] != c['int_out'] or c['pk_in'] != c['pk_out']:
                    raise Violation('visit *_in / *_out events do not balance', grammar=gtext, text=w, lexer=lx, single_visit=sv, returns_bare_nodes=bare, counts=c)
                cycles_seen.append(c['cycle'])
            if (cycles_seen[0] > 0) != cyclic_input or (cycles_seen[2] > 0) != cyclic_input:
                raise Violation('on_cycle %s although the input has %s derivations' % ('fired' if cycles_seen[0] else 'did not fire',
                                'infinitely many' if cyclic_input else 'finitely many'), grammar=gtext, text=w, lexer=lx, on_cycle_calls=cycles_seen)
            try:
                ForestSumVisitor().visit(root)
                ct = CountingTransformer(); ct.transform(root)
            except Exception as e:
                raise Violation('forest walk raised %s' % type(e).__name__, grammar=gtext, text=w, lexer=lx, error=str(e)[:300])
            # ---- trees
            try:
                amb = TreeForestTransformer(resolve_ambiguity=False).transform(root)
                one = TreeForestTransformer(resolve_ambiguity=True).transform(root)
            except Exception as e:
                raise Violation('TreeForestTransformer raised %s' % type(e).__name__, grammar=gtext, text=w, lexer=lx, error=str(e)[:300])
            if expected is not None:
                got = set(gram.expand_ambig(norm_unshaped(amb, tokpos)))
                if got != expected:
                    raise Violation('forest does not encode exactly the derivations', grammar=gtext, text=w, lexer=lx, n_expected=len(expected), n_got=len(got),
                                    missing=[gram.show(x) for x in list(expected - got)[:2]], extra=[gram.show(x) for x in list(got - expected)[:2]])
                if norm_unshaped(one, tokpos) not in expected:
                    raise Violation('resolve_ambiguity=True result is not a derivation', grammar=gtext, text=w, lexer=lx, got=gram.show(norm_unshaped(one, tokpos)))
                if n_derivs == 1 and root.is_ambiguous:
                    raise Violation('is_ambiguous is True for a single derivation', grammar=gtext, text=w, lexer=lx, is_ambiguous=True)
                if n_derivs > 1 and not _any_ambiguous(root):
                    raise Violation('no ambiguous node in a forest with several derivations', grammar=gtext, text=w, lexer=lx)
                ctx.label('input:ambiguous' if len(expected) > 1 else 'input:single-derivation')
                if len(expected) > 1:
                    ctx.nontrivial([gtext, lx, w], sample={'grammar': gtext, 'text': w, 'lexer': lx, 'derivations': len(expected)})
            else:
                ctx.label('input:cyclic forest walked')
                ctx.nontrivial([gtext, lx, w, 'cyclic'], sample={'grammar': gtext, 'text': w, 'lexer': lx, 'cyclic': True, 'on_cycle_calls': cycles_seen})


def _known_trailing_ignore(case, v):
    # dynamic lexers: the completed start symbol is carried over trailing ignored text; when the start rule is recursive the
    # carried inner and outer items give two packed nodes for one derivation.  Matches only if cutting off a suffix that
    # consists of ignored terminals only makes the ambiguity disappear.
    d = v.detail
    if not (d.get('is_ambiguous') or d.get('ambig_in_tree')) or not str(d.get('lexer', '')).startswith('dynamic'): return False
    w = d['text']; g = case['g']
    if not g.get('ignore'): return False
    # causal test: the carry-over applies to completed items of the *start symbol* only.  Wrap the grammar so that the
    # recursive symbol is no longer the start symbol (start: start_ / start_: <old alternatives>, every reference renamed);
    # if the ambiguity disappears, it was produced by the carry-over and nothing else.
    import copy
    g2 = copy.deepcopy(g)
    def ren(items):
        for i in items:
            if i[0] == 'n' and i[1] == 'start': i[1] = 'start_'
            elif i[0] in ('grp', 'maybe'):
                for a in i[1]: ren(a)
            elif i[0] in ('opt', 'star', 'plus', 'rep'): ren([i[1]])
    refers = [False]
    for r in g2['rules']:
        for a in r['alts']:
            before = repr(a['items']); ren(a['items'])
            if repr(a['items']) != before: refers[0] = True
        if r['name'] == 'start': r['name'] = 'start_'
    if not refers[0]: return False      # start is not recursive: not this finding
    g2['rules'].insert(0, {'name': 'start', 'mod': '', 'prio': None, 'params': [], 'alts': [{'items': [['n', 'start_']], 'alias': None}]})
    p = Lark(gram.render_grammar(g2), parser='earley', lexer=d['lexer'], ambiguity='forest')
    try:
        root = p.parse(w)
    except UnexpectedInput:
        return False
    amb = TreeForestTransformer(resolve_ambiguity=False).transform(root)
    return not root.is_ambiguous and not (isinstance(amb, Tree) and any(t.data == '_ambig' for t in amb.iter_subtrees()))


KNOWN = {'C20-is-ambiguous-trailing-ignore': _known_trailing_ignore}


def _any_ambiguous(root):
    seen = set(); stack = [root]
    while stack:
        n = stack.pop()
        if id(n) in seen or n is None or isinstance(n, TokenNode): continue
        seen.add(id(n))
        if isinstance(n, SymbolNode):
            if n.is_ambiguous: return True
            stack += list(n.children)
        elif isinstance(n, PackedNode):
            stack += [n.left, n.right]
    return False


# ------------------------------------------------------------------ regexp terminals under the dynamic lexers
O_RE = gramgen.Opts(terms='re', max_rules=3, shaping=False, ignore=True, acyclic=True, nonnull=True)


def check_re(case, ctx):
    """single derivation (counted on the grammar AST at character level) => no ambiguity anywhere in the forest.
    Derivations are counted (not shaped trees: `start: A+ | A` has two derivations of 'a' with one shaped tree)."""
    g = case['g']
    if gram.colliding_alternatives(g):
        ctx.discard('colliding alternatives'); return
    gtext = gram.render_grammar(g)
    conc = gram.Concrete(g)
    for lx in ('dynamic', 'dynamic_complete'):
        try:
            p = Lark(gtext, parser='earley', lexer=lx, ambiguity='forest')
        except GrammarError:
            ctx.discard('GrammarError'); return
        for w in case['texts']:
            ref = gram.Ref(g, w, 'exact', keep_all=True, concrete=conc)
            if not ref.accepts(): continue
            try:
                n = ref.count()
            except (gram.TooMany, gram.Cyclic):
                continue
            if n != 1: 
                ctx.label('re:several-derivations'); continue
            try:
                root = p.parse(w)
            except UnexpectedInput:
                ctx.label('re:rejected by lark (C01 decides acceptance)'); continue
            amb = TreeForestTransformer(resolve_ambiguity=False).transform(root)
            has_ambig = isinstance(amb, Tree) and any(t.data == '_ambig' for t in amb.iter_subtrees())
            if root.is_ambiguous or has_ambig or _any_ambiguous(root):
                raise Violation('forest of an input with a single derivation contains an ambiguous node', grammar=gtext, text=w, lexer=lx,
                                is_ambiguous=bool(root.is_ambiguous), ambig_in_tree=has_ambig)
            ctx.label('re:single-derivation-unambiguous')
            ctx.nontrivial([gtext, lx, w, 're'], sample={'grammar': gtext, 'text': w, 'lexer': lx, 'derivations': 1})


def strat(o, n, max_len):
    return gramgen.grammar_and_inputs(o, max_len=max_len, n=n).map(lambda c: {'g': c['g'], 'texts': c['texts']})


def phases(tier):
    k = 12 if tier == 'thorough' else 1
    return [Phase('acyclic', 'hypothesis', strategy=strat(O_ACYC, 3, 8), max_examples=12000 * k),
            Phase('any', 'hypothesis', strategy=strat(O_ANY, 3, 3), max_examples=12000 * k),
            Phase('regexp-terminals-dynamic', 'hypothesis', strategy=strat(O_RE, 4, 8), max_examples=12000 * k, check=check_re)]
