"""C14  scan() yields leftmost-longest non-overlapping matches consistent with parse()."""
from hypothesis import strategies as st
from vlib.harness import Phase, Violation, blame_lark
from vlib import gram, gramgen, coords
from lark import Lark, Token, Tree
from lark.utils import TextSlice
from lark.exceptions import UnexpectedInput, GrammarError

ID = 'C14'
LEVEL = 'exploration'
RULE = ('generated LALR grammars (nullable starts, ignored terminals, shaping features) over prefix-free string terminals - lexing is '
        'context-free there, so the property holds to the letter - x texts of <= 14 characters built by interleaving sentences, near '
        'sentences and junk x {basic, contextual} x str/bytes x TextSlice windows. Oracle: brute force over all (start, end): '
        'P(s,e) = parse(text[s:e]) succeeds, is non-empty and its first/last tokens touch s and e; expected matches = leftmost start, '
        'longest end, resume at end; each value must equal parse(text[s:e]) shifted into full-text coordinates (line/column recomputed '
        'from offsets). Non-trivial = text with >= 1 match and >= 1 skipped region; distinct = (grammar, lexer, representation, text, window)')
ASSUMPTIONS = ['main phases: terminals are prefix-free fixed strings (class S of the design): tokenisation of a snippet equals tokenisation inside the full text, so the property holds to the letter',
               'class R phase (regexp/keyword terminals, hand-written skeleton grammars): maximal munch on the longer text legitimately differs from lexing the snippet alone, so the expectation is rebuilt from the interactive parser API (longest token prefix from each start after which the parser can finish)']

from vlib.gramgen import TOK_SETS
# some token sets contain a newline terminal, so that matches span lines and a later match can start on the line where one ended
NL_SETS = TOK_SETS + [['a', '\n', 'b', 'c'], ['x', '\n', 'yy', 'z'], ['\n', 'ab', 'b', 'c']]
O = gramgen.Opts(terms='tok', max_rules=4, shaping=True, ignore=True, acyclic=True, tok_sets=NL_SETS)
O_NN = gramgen.Opts(terms='tok', max_rules=3, shaping=True, ignore=True, acyclic=True, nonnull=True, tok_sets=NL_SETS)


def norm(t, shift=0, buf=None):
    if t is None: return None
    if isinstance(t, Tree):
        m = t.meta
        mm = None if m.empty else _pos(m, shift, buf)
        return ('N', str(t.data), mm, tuple(norm(c, shift, buf) for c in t.children))
    if isinstance(t, Token):
        v = t.value.decode('ascii') if isinstance(t.value, bytes) else str(t.value)
        return ('T', t.type, v, _pos(t, shift, buf))
    return ('V', repr(t))


def _pos(o, shift, buf):
    sp = o.start_pos + shift; ep = o.end_pos + shift
    if buf is None:
        return (sp, ep, o.line, o.column, o.end_line, o.end_column)
    nl = b'\n' if isinstance(buf, bytes) else '\n'
    return (sp, ep) + coords.line_col(buf, sp, nl) + coords.line_col(buf, ep, nl)


def first_last_token(t):
    toks = []
    def walk(x):
        if isinstance(x, Tree):
            for c in x.children: walk(c)
        elif isinstance(x, Token): toks.append(x)
    walk(t)
    return toks


@blame_lark
def check(case, ctx):
    g = gram.render_grammar(case['g'])
    use_bytes = case['bytes']
    ps = {}
    for lx in ('basic', 'contextual'):
        try:
            # keep_all_tokens so that the first and last *token* of a snippet are visible in the tree (P's touch test)
            ps[lx] = (Lark(g, parser='lalr', lexer=lx, use_bytes=use_bytes, propagate_positions=True),
                      Lark(g, parser='lalr', lexer=lx, use_bytes=use_bytes, keep_all_tokens=True))
        except GrammarError:
            ctx.discard('GrammarError (not LALR / collision)'); return
    for (pre, w, suf) in case['windows']:
        buf = pre + w + suf; a = len(pre); b = a + len(w)
        data = buf.encode('ascii') if use_bytes else buf
        for lx, (p, pk) in ps.items():
            # ---- brute force on the window
            def P(s, e):
                sub = data[s:e]
                try:
                    tk = pk.parse(sub)
                except UnexpectedInput:
                    return False
                toks = first_last_token(tk) if isinstance(tk, Tree) else [tk]
                if not toks: return False
                return toks[0].start_pos == 0 and toks[-1].end_pos == e - s
            expected = []
            pos = a
            while pos <= b:
                found = None
                for s in range(pos, b):
                    for e in range(b, s, -1):
                        if P(s, e):
                            found = (s, e); break
                    if found: break
                if not found: break
                expected.append(found); pos = found[1]
            # ---- lark
            inp = TextSlice(data, a, b) if (pre or suf or case['slice_always']) else data
            try:
                got = list(p.scan(inp))
            except UnexpectedInput as ex:
                raise Violation('scan() raised %s' % type(ex).__name__, grammar=g, buffer=buf, window=[a, b], lexer=lx)
            ranges = [tuple(m.range) for m in got]
            if ranges != expected:
                raise Violation('scan() ranges differ from leftmost-longest matches found by brute force over all substrings', grammar=g, buffer=buf,
                                window=[a, b], lexer=lx, bytes=use_bytes, got=ranges, want=expected)
            for m in got:
                s, e = m.range
                want = norm(p.parse(data[s:e]), shift=s, buf=data)
                have = norm(m.value)
                if have != want:
                    raise Violation('match value differs from parse(text[start:end]) in full-text coordinates', grammar=g, buffer=buf, window=[a, b],
                                    lexer=lx, bytes=use_bytes, range=[s, e], got=str(have)[:400], want=str(want)[:400])
            ctx.label('matches:%d' % min(len(expected), 4))
            covered = sum(e - s for s, e in expected)
            if expected and covered < (b - a):
                ctx.nontrivial([g, lx, use_bytes, buf, a, b], sample={'grammar': g, 'buffer': buf, 'window': [a, b], 'lexer': lx, 'matches': expected})


# ------------------------------------------------------------------ class R: regexp / keyword terminals
# Maximal munch on the full text can legitimately differ from lexing a snippet alone, so "parses" means: the tokens the parser's
# own lexer produces from that start, in context, up to a point where the parser can finish.  The expectation is rebuilt from
# the public interactive API (independent of _scan's start search, resume positions, line counting and token replay).
SKEL_R = [
    ('start: NAME "=" NUM | NUM "+" NUM | "if" NAME\nNAME: /[a-z][a-z0-9]*/\nNUM: /[0-9]+/\n%ignore " "\n', ['x', 'x1', 'if', 'iff', '1', '22', '=', '+', ' ', 'q=', '9+9', 'if x']),
    ('start: item+\nitem: KEY ":" VAL | "[" start "]"\nKEY: /[a-z]+/\nVAL: /[0-9]+|[a-z]+/\n%ignore /[ ]+/\n', ['a', 'ab', ':', '1', '[', ']', ' ', 'a:1', 'b:c', '[a:1]', '::']),
    ('start: "begin" stmt* "end"\nstmt: WORD ";" | "begin" stmt* "end"\nWORD: /[a-z]+/\n%ignore " "\n', ['begin', 'end', 'x', ';', ' ', 'beginx', 'endend', 'begin end', 'x;']),
    # an ignored terminal that wins the lexer's choice at a position where a start terminal matches too, with a real match beginning
    # strictly inside the ignored span
    ('start: A C | B D\nA: "a"\nB: "b"\nC: "c"\nD: "d"\n%ignore /ab/\n', ['a', 'b', 'c', 'd', 'ab', 'abd', 'ac', 'bd', 'abc']),
    ('start: A+ C | B D\nA: "a"\nB: "b"\nC: "c"\nD: "d"\n%ignore /a+b/\n%ignore " "\n', ['a', 'b', 'c', 'd', 'aab', 'abd', 'ac', 'bd', ' ', 'aac']),
]


@st.composite
def r_cases(draw):
    g, words = draw(st.sampled_from(SKEL_R))
    texts = [''.join(draw(st.lists(st.sampled_from(words), min_size=1, max_size=7))) for _ in range(4)]
    return {'gtext': g, 'texts': texts, 'lexer': draw(st.sampled_from(['contextual', 'contextual', 'basic']))}


def longest_from(p, text, s):
    """(start, end) of the longest prefix of the token stream from offset s after which the parser can finish, or None"""
    ip = p.parse_interactive(text[s:])
    toks = []; best = None
    try:
        for tok in ip.lexer_thread.lex(ip.parser_state):
            ip.feed_token(tok); toks.append(tok)
            c = ip.copy()
            try:
                c.feed_eof(tok); best = len(toks)
            except UnexpectedInput:
                pass
    except UnexpectedInput:
        pass
    if not best or toks[0].start_pos != 0:
        return None          # nothing parses here, or s lies in ignored text (the match belongs to a later start)
    return (s + toks[0].start_pos, s + toks[best - 1].end_pos)


@blame_lark
def check_r(case, ctx):
    g = case['gtext']
    p = Lark(g, parser='lalr', lexer=case['lexer'], propagate_positions=True)
    for w in case['texts']:
        expected = []; pos = 0
        while pos < len(w):
            m = None
            for s_ in range(pos, len(w)):
                m = longest_from(p, w, s_)
                if m: break
            if not m: break
            expected.append(m); pos = m[1]
        got = [tuple(m.range) for m in p.scan(w)]
        if got != expected:
            raise Violation('scan() ranges differ from the leftmost-longest matches rebuilt with the interactive parser', grammar=g, text=w,
                            lexer=case['lexer'], got=got, want=expected)
        for m in p.scan(w):
            s_, e_ = m.range
            # value: the same tokens replayed through a fresh interactive parser
            ip = p.parse_interactive(w[s_:])
            toks = []
            try:
                for tok in ip.lexer_thread.lex(ip.parser_state):
                    if s_ + tok.end_pos > e_: break
                    ip.feed_token(tok); toks.append(tok)
            except UnexpectedInput:
                pass          # the text after the match need not lex in this context
            want = norm(ip.feed_eof(toks[-1]), shift=s_, buf=w)
            if norm(m.value) != want:
                raise Violation('match value differs from parsing the matched tokens (full-text coordinates)', grammar=g, text=w, lexer=case['lexer'],
                                range=[s_, e_], got=str(norm(m.value))[:300], want=str(want)[:300])
        ctx.label('classR:matches:%d' % min(len(expected), 4))
        if expected and sum(e - s_ for s_, e in expected) < len(w):
            ctx.nontrivial([g, case['lexer'], w, 'R'], sample={'grammar': g, 'text': w, 'lexer': case['lexer'], 'matches': expected})


PADS = ['', '', 'a', '\n', 'b\n', 'q ', ' ', 'x\n\n']


@st.composite
def cases(draw, o):
    g = draw(gramgen.grammars(o))
    alpha = gramgen.alphabet(g) + ['q', '\n'] if True else []
    rnd = draw(st.randoms(use_true_random=False))
    conc = gram.Concrete(g)
    wins = []
    for _ in range(3):
        parts = []
        for _k in range(draw(st.integers(1, 3))):
            m = draw(st.integers(0, 3))
            if m <= 1:
                s = gramgen.gen_sentence(g, rnd, conc)
                if s is None or len(s) > 8: s = ''
                parts.append(s)
            elif m == 2:
                parts.append(''.join(draw(st.lists(st.sampled_from(alpha), max_size=4))))
            else:
                parts.append(draw(st.sampled_from(['q', ' ', 'qq', '\n', ''])))
        w = ''.join(parts)[:14]
        wins.append([draw(st.sampled_from(PADS)), w, draw(st.sampled_from(PADS))])
    return {'g': g, 'windows': wins, 'bytes': draw(st.integers(0, 3)) == 0, 'slice_always': draw(st.booleans())}


def phases(tier):
    k = 10 if tier == 'thorough' else 1
    return [Phase('scan', 'hypothesis', strategy=cases(O), max_examples=12000 * k),
            Phase('scan-nonnull', 'hypothesis', strategy=cases(O_NN), max_examples=12000 * k),
            Phase('scan-regexp-keyword-terminals', 'hypothesis', strategy=r_cases(), max_examples=6000 * k, check=check_r)]
