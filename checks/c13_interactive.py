"""C13  Interactive parser: forks independent, accepts() exact, resume equals parse."""
import os, tempfile, shutil, atexit
from hypothesis import strategies as st
from vlib.harness import Phase, Violation, blame_lark
from vlib import gram, gramgen
from lark import Lark, Token, Tree
from lark.exceptions import UnexpectedInput, UnexpectedToken, GrammarError
from lark.parsers.lalr_interactive_parser import ImmutableInteractiveParser

ID = 'C13'
LEVEL = 'exploration'
RULE = ('operation sequences (feed a token, copy(), as_immutable(), as_mutable(), immutable feed keeping both, fork of fork) over a pool of '
        'interactive parsers, each with its own recorded token list, on hand-written LALR grammars (left-recursive lists, expressions, '
        'inlined rules, placeholders, a terminal imported through a rule) and generated ones, with and without propagate_positions; plus '
        'lexer-driven sessions (iter_parse for k tokens, fork, resume_parse on fork and original; resume from e.interactive_parser after '
        'an error). Oracle per parser: feed_eof == parse(text of its own tokens); accepts() == {t : feeding Token(t) to a copy succeeds}; '
        'resume_parse == manually feeding the remaining tokens. Non-trivial = sequence with a fork taken with a non-empty value stack '
        'after which both sides are fed different tokens; distinct = (grammar, options, operation list)')
ASSUMPTIONS = ['tokens are built by hand with the offsets/lines/columns the lexer would assign, so results can be compared including positions',
               'terminals of the token pool do not contain newlines']

_tmp = None


def tmpdir():
    global _tmp
    if _tmp is None:
        _tmp = tempfile.mkdtemp(prefix='c13-')
        atexit.register(shutil.rmtree, _tmp, True)
        with open(os.path.join(_tmp, 'mod.lark'), 'w') as f:
            f.write('pair: WORD ":" NUM\nWORD: /[a-z]+/\nNUM: /[0-9]+/\n')
    return _tmp


LIB = [
    ('list', 'start: item*\n?item: A | "(" start ")" | B B -> bb\nA: "a"\nB: "b"\n', [('A', 'a'), ('B', 'b'), ('LPAR', '('), ('RPAR', ')')], False),
    ('expr', 'start: e\n?e: e "+" t | t\n?t: t "*" f | f\n?f: N | "(" e ")"\nN: "n"\n', [('N', 'n'), ('PLUS', '+'), ('STAR', '*'), ('LPAR', '('), ('RPAR', ')')], False),
    ('inl', 'start: _l "."\n_l: _l A | A | [B]\nA: "a"\nB: "b"\n', [('A', 'a'), ('B', 'b'), ('DOT', '.')], False),
    ('opt', 'start: a [b] c*\na: X\n!b: "<" X ">"\nc: X "!" -> bang | X "?"\nX: "x"\n', [('X', 'x'), ('LESSTHAN', '<'), ('MORETHAN', '>'), ('BANG', '!'), ('QMARK', '?')], False),
    ('imp', 'start: pair ("," pair)*\n%import mod.pair\n', [('mod__WORD', 'ab'), ('mod__NUM', '12'), ('COLON', ':'), ('COMMA', ',')], True),
]


def build(case):
    pp = case['pp']
    if case['lib'] is not None:
        name, g, pool, imp = LIB[case['lib']]
        kw = {'import_paths': [tmpdir()]} if imp else {}
        p = Lark(g, parser='lalr', propagate_positions=pp, **kw)
        return p, g, pool
    g = gram.render_grammar(case['g'])
    p = Lark(g, parser='lalr', propagate_positions=pp)
    pool = []
    for t in p.terminals:
        if t.pattern.type == 'str' and t.name not in p.ignore_tokens:
            pool.append((t.name, t.pattern.value))
    return p, g, pool


def norm(x):
    if isinstance(x, Tree):
        m = x.meta
        mm = None if m.empty else tuple(getattr(m, a, None) for a in ('start_pos', 'end_pos', 'line', 'column', 'end_line', 'end_column'))
        return ('N', str(x.data), mm, tuple(norm(c) for c in x.children))
    if isinstance(x, Token):
        return ('T', x.type, str(x), x.start_pos, x.end_pos, x.line, x.column)
    return repr(x)


def mk(pool_entry, offset):
    t, v = pool_entry
    return Token(t, v, offset, 1, offset + 1, 1, offset + 1 + len(v), offset + len(v))


def text_of(seq):
    return ''.join(v for _t, v in seq)


def ref_result(p, seq):
    try:
        return ('ok', norm(p.parse(text_of(seq))))
    except UnexpectedInput as e:
        return ('err', type(e).__name__)


def trial_accepts(ip, names):
    out = set()
    for t in list(names) + ['$END']:
        c = ip.copy()
        try:
            c.feed_token(Token(t, ''))
            out.add(t)
        except UnexpectedInput:
            pass
    return out


@blame_lark
def check(case, ctx):
    try:
        p, g, pool = build(case)
    except GrammarError as e:
        ctx.discard('GrammarError (not LALR / collision)'); return
    if not pool:
        return
    names = sorted({t for t, _ in pool} | {t.name for t in p.terminals})
    ents = [[p.parse_interactive(''), [], False]]          # [interactive parser, own token list, dead]
    forked_nonempty = False; diverged = False
    for op, pi, arg in case['ops']:
        ent = ents[pi % len(ents)]
        if ent[2]: continue
        ip = ent[0]
        # accepts() must be exact at every point
        acc = ip.accepts()
        want = trial_accepts(ip, names)
        if acc != want:
            raise Violation('accepts() differs from trial feeding', grammar=g, tokens=[t for t, _ in ent[1]], accepts=sorted(acc), trial=sorted(want),
                            mangled=any('__' in t and not t.startswith('__') for t in want - acc))
        if op == 'feed':
            tok = mk(pool[arg % len(pool)], len(text_of(ent[1])))
            others = [(e[0].choices(), len(e[0].parser_state.state_stack), e[0].parser_state.position) for e in ents if e is not ent and not e[2]]
            try:
                if isinstance(ip, ImmutableInteractiveParser):
                    new = ip.feed_token(tok)
                    if arg % 3 == 0:
                        ents.append([ip, list(ent[1]), False])   # keep the untouched immutable parent as well
                    ent[0] = new
                else:
                    ip.feed_token(tok)
                ent[1] = ent[1] + [pool[arg % len(pool)]]
                if len(ents) > 1: diverged = True
            except UnexpectedInput:
                ent[2] = True
            now = [(e[0].choices(), len(e[0].parser_state.state_stack), e[0].parser_state.position) for e in ents if e is not ent and not e[2]][:len(others)]
            if now != others:
                raise Violation('feeding one parser changed the state of another fork', grammar=g, tokens=[t for t, _ in ent[1]])
        elif op == 'copy':
            if len(ip.parser_state.value_stack) > 0: forked_nonempty = True
            ents.append([ip.copy(), list(ent[1]), False])
        elif op == 'imm':
            if len(ip.parser_state.value_stack) > 0: forked_nonempty = True
            ents.append([ip.as_immutable(), list(ent[1]), False])
        elif op == 'mut':
            if isinstance(ip, ImmutableInteractiveParser):
                ents.append([ip.as_mutable(), list(ent[1]), False])
        if len(ents) > 12: break
    for ip, seq, dead in ents:
        if dead: continue
        last = mk(seq[-1], len(text_of(seq[:-1]))) if seq else None
        try:
            r = ip.feed_eof(last)
            if isinstance(ip, ImmutableInteractiveParser): r = r.result
            got = ('ok', norm(r))
        except UnexpectedInput as e:
            got = ('err', type(e).__name__)
        want = ref_result(p, seq)
        if got != want:
            raise Violation('fork does not end with the result of its own token sequence', grammar=g, propagate_positions=case['pp'],
                            tokens=[t for t, _ in seq], got=str(got)[:400], want=str(want)[:400])
    ctx.label('forks:%d' % min(len(ents), 5), 'lib' if case['lib'] is not None else 'generated')
    if forked_nonempty and diverged:
        ctx.nontrivial([g, case['pp'], case['ops']], sample={'grammar': g, 'ops': case['ops'][:12], 'parsers_at_end': len(ents)})


# ------------------------------------------------------------------ lexer-driven sessions: fork + resume
@blame_lark
def check_session(case, ctx):
    try:
        p, g, pool = build(case)
    except GrammarError:
        ctx.discard('GrammarError'); return
    if not pool: return
    seq = [pool[i % len(pool)] for i in case['toks']]
    text = text_of(seq)
    want = ref_result(p, seq)
    k = case['k'] % (len(seq) + 1)
    # (a) step k tokens, fork, resume the fork, then resume the original: both must give the plain result
    ip = p.parse_interactive(text)
    try:
        for _ in range(k):
            # one full step: take the next token from this parser's lexer and feed it (iter_parse() yields a token
            # *before* feeding it, so abandoning that generator would drop the token in flight)
            ip.feed_token(next(ip.lexer_thread.lex(ip.parser_state)))
        stepped = True
    except (StopIteration, UnexpectedInput):
        stepped = False
    if stepped:
        fork = ip.copy()
        order = [('fork', fork), ('original', ip)] if case['fork_first'] else [('original', ip), ('fork', fork)]
        j = case.get('j', 0); stepper = case.get('stepper', 'fork')
        for who, x in order:
            try:
                if j and stepper in (who, 'both'):
                    # the parser advances through its *own* lexer thread before it is resumed
                    if case.get('exhaust'):
                        x.exhaust_lexer()
                    else:
                        for _ in range(j):
                            try: x.feed_token(next(x.lexer_thread.lex(x.parser_state)))
                            except StopIteration: break
                got = ('ok', norm(x.resume_parse()))
            except UnexpectedInput as e:
                got = ('err', type(e).__name__)
            if got != want:
                raise Violation('resume_parse() on the %s differs from parse() of the text (resumed %s)' % (who, 'first' if x is order[0][1] else 'second'),
                                grammar=g, text=text, stepped_tokens=k, stepped_after_fork=[j, stepper, bool(case.get('exhaust'))], got=str(got)[:300], want=str(want)[:300], fork_resume=True)
        ctx.label('session:fork-resume')
        if 0 < k < len(seq):
            ctx.nontrivial([g, case['toks'], k, case['fork_first'], j, stepper, bool(case.get('exhaust')), 'session'], sample={'grammar': g, 'text': text, 'stepped_tokens': k, 'fork_first': case['fork_first']})
    # (b) resume from the error state == manually feeding the remaining tokens to a copy
    if want[0] == 'err':
        try:
            p.parse(text)
        except UnexpectedToken as e:
            ip2 = e.interactive_parser
            toks = list(p.lex(text)) if p.options.lexer == 'basic' else None
            if toks is None:
                try:
                    toks = list(Lark(g, parser='lalr', lexer='basic', propagate_positions=case['pp'], **({'import_paths': [tmpdir()]} if case['lib'] is not None and LIB[case['lib']][3] else {})).lex(text))
                except UnexpectedInput:
                    toks = None
            if toks is not None and e.token.type != '$END':
                idx = next((i for i, t in enumerate(toks) if t.start_pos == e.token.start_pos), None)
                if idx is not None:
                    rest = toks[idx + 1:]
                    c = ip2.copy()
                    try:
                        for t in rest: c.feed_token(t)
                        manual = ('ok', norm(c.feed_eof(rest[-1] if rest else toks[idx])))
                    except UnexpectedInput as e2:
                        manual = ('err', type(e2).__name__, getattr(getattr(e2, 'token', None), 'start_pos', None))
                    try:
                        auto = ('ok', norm(ip2.resume_parse()))
                    except UnexpectedInput as e3:
                        auto = ('err', type(e3).__name__, getattr(getattr(e3, 'token', None), 'start_pos', None))
                    if manual[0] != auto[0] or (manual[0] == 'err' and manual != auto) or (manual[0] == 'ok' and manual != auto and rest):
                        raise Violation('resume_parse() from the error state differs from feeding the remaining tokens by hand', grammar=g, text=text,
                                        manual=str(manual)[:300], resume=str(auto)[:300])
                    ctx.label('session:error-resume')
        except UnexpectedInput:
            pass


O_GEN = gramgen.Opts(terms='tok', max_rules=4, shaping=True, ignore=False, acyclic=True)


@st.composite
def op_cases(draw):
    lib = draw(st.one_of(st.integers(0, len(LIB) - 1), st.integers(0, len(LIB) - 1), st.none()))
    g = draw(gramgen.grammars(O_GEN)) if lib is None else None
    ops = draw(st.lists(st.tuples(st.sampled_from(['feed', 'feed', 'feed', 'feed', 'copy', 'imm', 'mut']), st.integers(0, 11), st.integers(0, 30)),
                        min_size=2, max_size=16))
    return {'lib': lib, 'g': g, 'pp': draw(st.booleans()), 'ops': [list(o) for o in ops]}


@st.composite
def session_cases(draw):
    lib = draw(st.one_of(st.integers(0, len(LIB) - 1), st.integers(0, len(LIB) - 1), st.none()))
    g = draw(gramgen.grammars(O_GEN)) if lib is None else None
    return {'lib': lib, 'g': g, 'pp': draw(st.booleans()), 'toks': draw(st.lists(st.integers(0, 30), max_size=9)),
            'k': draw(st.integers(0, 9)), 'fork_first': draw(st.booleans()), 'j': draw(st.sampled_from([0, 0, 1, 2, 3])),
            'stepper': draw(st.sampled_from(['fork', 'fork', 'original', 'both'])), 'exhaust': draw(st.integers(0, 3)) == 0}


def phases(tier):
    k = 12 if tier == 'thorough' else 1
    return [Phase('fork-trees', 'hypothesis', strategy=op_cases(), max_examples=12000 * k),
            Phase('sessions', 'hypothesis', strategy=session_cases(), max_examples=12000 * k, check=check_session)]
