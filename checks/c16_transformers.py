"""C16  Embedded transformer equals transforming afterwards; transformer variants agree."""
from hypothesis import strategies as st
from vlib.harness import Phase, Violation, blame_lark
from vlib import gram, gramgen
from lark import Lark, Tree, Token, Transformer, v_args, Discard
from lark.visitors import Transformer_InPlace, Transformer_NonRecursive, Transformer_InPlaceRecursive
from lark.exceptions import UnexpectedInput, GrammarError, VisitError

ID = 'C16'
LEVEL = 'exploration'
RULE = ('(a) hand-written and generated LALR grammars with all shaping features x transformer classes generated as data - for a random '
        'subset of rule names, aliases, template names and named terminals a pure callback (name, children) in plain / v_args(inline) / '
        'v_args(tree) style on base class Transformer, Transformer_NonRecursive, Transformer_InPlace or Transformer_InPlaceRecursive - x '
        'inputs: Lark(g, parser="lalr", transformer=T()).parse(w) must equal T().transform(Lark(g, parser="lalr").parse(w)). (b) random '
        'trees x the four classes with logging callbacks (some returning Discard): equal results, every node\'s callback called exactly '
        'once and after all of its children\'s. Non-trivial = (a) accepted input whose transformer has callbacks on a rule and on a '
        'terminal that both occur in the tree, (b) tree of depth >= 3; distinct = (grammar, transformer description, input) / tree')
ASSUMPTIONS = ['callbacks are pure and attached to named rules, aliases, template names and named terminals only; __default__/__default_token__ untouched; Discard and meta excluded in (a) as documented',
               'callbacks on _inlined rules are not generated (such rules are not nodes of the tree)']

LIB = [
    ('expr', 'start: e\n?e: e "+" t -> add | t\n?t: t "*" f -> mul | f\n?f: N | "(" e ")" | "-" f -> neg\nN: /[0-9]/\n', ['start', 'add', 'mul', 'neg'], ['N'], '12+()*-'),
    ('list', 'start: "[" [item ("," item)*] "]"\n?item: W | start | pair\npair: W ":" item\nW: /[a-z]/\n', ['start', 'pair'], ['W'], 'ab[],:'),
    ('opt', 'start: a [b] c*\na: X\n!b: "<" X ">"\nc: X "!" -> bang | X "?"\nX: /x/\n', ['start', 'a', 'b', 'c', 'bang'], ['X'], 'x<>!?'),
    ('tmpl', 'start: sep{a, ";"}\nsep{x,s}: x (s x)*\na: W+\nW: /w/\n', ['start', 'sep', 'a'], ['W'], 'w;'),
]
BASES = {'Transformer': Transformer, 'Transformer_NonRecursive': Transformer_NonRecursive,
         'Transformer_InPlaceRecursive': Transformer_InPlaceRecursive, 'Transformer_InPlace': Transformer_InPlace}


def freeze(x):
    if isinstance(x, Tree): return ('Tree', str(x.data), tuple(freeze(c) for c in x.children))
    if isinstance(x, Token): return ('Tok', x.type, str(x))
    if isinstance(x, (list, tuple)): return tuple(freeze(c) for c in x)
    return x


FALSY = {'none': None, 'zero': 0, 'empty': '', 'false': False}


def make_transformer(base, style, rules, toks, falsy=None):
    """falsy = (kind, names): the callbacks of these names return a falsy value (None, 0, '', False) instead of a tuple"""
    fk, fnames = falsy or (None, ())
    def ret(name, value):
        return FALSY[fk] if name in fnames else value
    ns = {}
    for r in rules:
        if style == 'plain': ns[r] = (lambda name: lambda self, ch: ret(name, (name, freeze(ch))))(r)
        elif style == 'inline': ns[r] = (lambda name: lambda self, *ch: ret(name, (name, freeze(ch))))(r)
        else: ns[r] = (lambda name: lambda self, t: ret(name, (name, str(t.data), freeze(t.children))))(r)      # tree style: the node name the callback sees matters too
    cls = type('T', (BASES[base],), ns)
    if style == 'inline': cls = v_args(inline=True)(cls)
    elif style == 'tree': cls = v_args(tree=True)(cls)
    for t in toks:
        setattr(cls, t, (lambda name: lambda self, tok: ret(name, ('tok', name, str(tok))))(t))
    return cls


def names_of(g):
    """callback targets of a generated grammar: (rule-ish names that can be tree nodes, named terminals)"""
    rules = set(); toks = []
    for r in g['rules']:
        if not r['name'].startswith('_'): rules.add(r['name'])
        for a in r['alts']:
            if a.get('alias'): rules.add(a['alias'])
    for t in g['terms']:
        if t['name'] not in g.get('ignore', []): toks.append(t['name'])
    return sorted(rules), toks


@blame_lark
def check(case, ctx):
    if case['lib'] is not None:
        name, g, rules, toks, _alpha = LIB[case['lib']]
    else:
        g = gram.render_grammar(case['g'])
        rules, toks = names_of(case['g'])
    cb_rules = [r for r, on in zip(rules, case['rule_mask']) if on]
    cb_toks = [t for t, on in zip(toks, case['tok_mask']) if on]
    falsy = None
    if case.get('falsy'):
        names = cb_rules + cb_toks
        falsy = (case['falsy'][0], {n for n, on in zip(names, case['falsy'][1] * 8) if on})
    T = make_transformer(case['base'], case['style'], cb_rules, cb_toks, falsy)
    try:
        plain = Lark(g, parser='lalr', lexer=case['lexer'])
        emb = Lark(g, parser='lalr', lexer=case['lexer'], transformer=T())
    except GrammarError:
        ctx.discard('GrammarError (not LALR / collision)'); return
    for w in case['texts']:
        try:
            tree = plain.parse(w)
        except UnexpectedInput:
            ctx.label('input:rejected'); continue
        try:
            post = freeze(T().transform(tree))
        except Exception as e:
            post = ('EXC', type(e).__name__)
        try:
            e_ = freeze(emb.parse(w))
        except UnexpectedInput as e:
            raise Violation('parser with embedded transformer rejects an input the plain parser accepts', grammar=g, text=w, base=case['base'], style=case['style'])
        except Exception as e:
            e_ = ('EXC', type(e).__name__, str(e)[:80])
        ctx.label('%s/%s' % (case['base'], case['style']))
        if post != e_:
            raise Violation('embedded transformer result differs from transforming afterwards', grammar=g, text=w, base=case['base'], style=case['style'],
                            callbacks_on_rules=cb_rules, callbacks_on_terminals=cb_toks, lexer=case['lexer'], embedded=str(e_)[:500], afterwards=str(post)[:500])
        used = _names_in(tree)
        if set(cb_rules) & used and set(cb_toks) & used:
            ctx.nontrivial([g, case['base'], case['style'], cb_rules, cb_toks, w], sample={'grammar': g, 'text': w, 'base': case['base'], 'style': case['style'],
                                                                                         'callbacks': cb_rules + cb_toks, 'result': str(post)[:200]})


def _names_in(t):
    out = set()
    def walk(x):
        if isinstance(x, Tree):
            out.add(str(x.data))
            for c in x.children: walk(c)
        elif isinstance(x, Token): out.add(x.type)
    walk(t)
    return out


def _known_inplace_plain(case, v):
    # embedded plain (no v_args) Transformer_InPlace callbacks receive the Tree instead of the list of children
    # (tests/test_parser.py::test_visit_tokens2 tolerates both shapes): open finding
    return case['base'] == 'Transformer_InPlace' and case['style'] == 'plain' and 'embedded transformer result differs' in v.what


KNOWN = {'C16-embedded-inplace-plain-gets-tree': _known_inplace_plain}


O_GEN = gramgen.Opts(terms='tok', max_rules=4, shaping=True, templates=False, ignore=True, acyclic=True)


@st.composite
def embedded_cases(draw):
    lib = draw(st.one_of(st.integers(0, len(LIB) - 1), st.none()))
    case = {'lib': lib, 'g': None, 'base': draw(st.sampled_from(sorted(BASES))), 'style': draw(st.sampled_from(['plain', 'inline', 'tree'])),
            'lexer': draw(st.sampled_from(['contextual', 'basic'])),
            'rule_mask': draw(st.lists(st.integers(0, 3).map(lambda x: x != 0), min_size=12, max_size=12)),
            'tok_mask': draw(st.lists(st.integers(0, 3).map(lambda x: x != 0), min_size=8, max_size=8))}
    # some callbacks return a falsy value (None, 0, '', False): such a result is a result like any other
    case['falsy'] = draw(st.one_of(st.none(), st.tuples(st.sampled_from(sorted(FALSY)), st.lists(st.booleans(), min_size=3, max_size=3)).map(list)))
    if lib is None:
        gi = draw(gramgen.grammar_and_inputs(O_GEN, max_len=9, n=5))
        case['g'] = gi['g']; case['texts'] = gi['texts']
    else:
        alpha = LIB[lib][4]
        fixed = {'expr': ['1+2*3', '(1)', '-1+2', '1*(2+3)*4'], 'list': ['[a,b]', '[a:[b,c],[]]', '[]', '[a:b:c]'],
                 'opt': ['x<x>x!x?', 'x', 'xx!', 'x<x>'], 'tmpl': ['w;ww;w', 'w', 'ww;w']}[LIB[lib][0]]
        case['texts'] = [draw(st.sampled_from(fixed)) if draw(st.booleans()) else ''.join(draw(st.lists(st.sampled_from(alpha), min_size=1, max_size=7)))
                         for _ in range(5)]
    return case


# ------------------------------------------------------------------ (b) the four classes agree on any tree
NODE_NAMES = ['a', 'b', 'c', 'd']


@st.composite
def trees(draw, depth=3):
    name = draw(st.sampled_from(NODE_NAMES))
    n = draw(st.integers(0, 3)) if depth > 0 else 0
    kids = []
    for _ in range(n):
        k = draw(st.integers(0, 2))
        if k == 0 or depth == 0: kids.append(['T', draw(st.sampled_from(['X', 'Y'])), draw(st.sampled_from(['x', 'y', 'z']))])
        else: kids.append(draw(trees(depth - 1)))
    return ['N', name, kids]


def build_tree(t, counter, ids=None):
    """every node gets a unique ID token as first child, so that callbacks can log which node they were called for"""
    if t[0] == 'T': return Token(t[1], t[2])
    counter[0] += 1
    uid = counter[0]
    kids = [build_tree(c, counter, ids) for c in t[2]]
    node = Tree(t[1], [Token('ID', str(uid))] + kids)
    if ids is not None:
        ids[uid] = [int(str(k.children[0])) for k in kids if isinstance(k, Tree)]
    return node


def depth_of(t):
    return 0 if t[0] == 'T' else 1 + max([depth_of(c) for c in t[2]] or [0])


@blame_lark
def check_variants(case, ctx):
    spec = case['tree']; behaviours = case['behaviours']     # name -> 'wrap' | 'discard' | 'count' | None
    if behaviours.get(spec[1]) == 'discard':
        ctx.discard('root node discarded (result of discarding the root is not specified)'); return
    results = {}
    for bname, base in BASES.items():
        log = []
        ns = {}
        for nm in NODE_NAMES:
            b = behaviours.get(nm)
            if b is None: continue
            def make(nm, b):
                def cb(self, children):
                    log.append(int(str(children[0])))
                    if b == 'discard': return Discard
                    if b == 'count': return len(children)
                    return (nm, freeze(children))
                return cb
            ns[nm] = make(nm, b)
        if case['token_cb']:
            ns['X'] = lambda self, tok: ('tokX', str(tok))
        cls = type('V', (base,), ns)
        counter = [0]; kids_of = {}
        tree = build_tree(spec, counter, kids_of)
        names = {}
        def collect(x):
            if isinstance(x, Tree):
                names[int(str(x.children[0]))] = str(x.data)
                for c in x.children: collect(c)
        collect(tree)
        try:
            res = freeze(cls().transform(tree))
        except Exception as e:
            raise Violation('%s.transform raised %s on a plain tree' % (bname, type(e).__name__), tree=spec, behaviours=behaviours, error=str(e)[:200])
        results[bname] = res
        want = sorted(uid for uid, nm in names.items() if behaviours.get(nm) is not None)
        if sorted(log) != want:
            raise Violation('%s: callbacks are not called exactly once per node' % bname, tree=spec, behaviours=behaviours, log=log, nodes_with_callback=want)
        posn = {uid: i for i, uid in enumerate(log)}
        def desc(uid):
            out = []
            for k in kids_of.get(uid, []):
                out.append(k); out += desc(k)
            return out
        for uid in log:
            for d in desc(uid):
                if d in posn and posn[d] > posn[uid]:
                    raise Violation('%s: a callback ran before the callback of one of its descendants' % bname, tree=spec, behaviours=behaviours, log=log,
                                    node=uid, descendant=d)
    base_res = results['Transformer']
    for bname, res in results.items():
        if res != base_res:
            raise Violation('%s returns a different result than Transformer' % bname, tree=spec, behaviours=behaviours, token_callback=case['token_cb'],
                            transformer=str(base_res)[:400], other=str(res)[:400])
    ctx.label('variants:agree')
    if depth_of(spec) >= 3:
        ctx.nontrivial([spec, behaviours, case['token_cb']], sample={'tree': spec, 'behaviours': behaviours, 'result': str(base_res)[:200]})


# ------------------------------------------------------------------ (c) plain trees without ID tokens, against a reference transformer
def build_plain(t):
    if t[0] == 'T': return Token(t[1], t[2])
    return Tree(t[1], [build_plain(c) for c in t[2]])


def ref_transform(t, behaviours, tok_behaviours):
    """the documented semantics written out: children first, left to right; a callback's result replaces the node; Discard removes it
    from its parent; nodes and tokens without a callback stay as they are (with their transformed children)"""
    if t[0] == 'T':
        b = tok_behaviours.get(t[1])
        if b == 'discard': return Discard
        if b == 'wrap': return ('tok' + t[1], t[2])
        return ('Tok', t[1], t[2])
    kids = [ref_transform(c, behaviours, tok_behaviours) for c in t[2]]
    kids = tuple(k for k in kids if k is not Discard)
    b = behaviours.get(t[1])
    if b == 'discard': return Discard
    if b == 'count': return len(kids)
    if b == 'wrap': return (t[1], kids)
    return ('Tree', t[1], kids)


@blame_lark
def check_plain(case, ctx):
    spec = case['tree']; behaviours = case['behaviours']; tokb = case['tok_behaviours']
    if behaviours.get(spec[1]) == 'discard':
        ctx.discard('root node discarded (result of discarding the root is not specified)'); return
    want = ref_transform(spec, behaviours, tokb)
    for bname, base in BASES.items():
        ns = {}
        for nm in NODE_NAMES:
            b = behaviours.get(nm)
            if b is None: continue
            def make(nm, b):
                def cb(self, children):
                    if b == 'discard': return Discard
                    if b == 'count': return len(children)
                    return (nm, freeze(children))
                return cb
            ns[nm] = make(nm, b)
        for ty in ('X', 'Y'):
            b = tokb.get(ty)
            if b == 'discard': ns[ty] = lambda self, tok: Discard
            elif b == 'wrap': ns[ty] = (lambda ty: lambda self, tok: ('tok' + ty, str(tok)))(ty)
        cls = type('V', (base,), ns)
        try:
            got = freeze(cls().transform(build_plain(spec)))
        except Exception as e:
            raise Violation('%s.transform raised %s on a plain tree' % (bname, type(e).__name__), tree=spec, behaviours=behaviours, token_behaviours=tokb, error=str(e)[:200])
        if got != want:
            raise Violation('%s: result differs from the documented bottom-up semantics' % bname, tree=spec, behaviours=behaviours, token_behaviours=tokb,
                            got=str(got)[:400], want=str(want)[:400])
    ctx.label('plain:agree')
    def emptied(t):
        """some node with children loses all of them to Discard"""
        if t[0] == 'T': return False
        gone = lambda c: (tokb.get(c[1]) == 'discard') if c[0] == 'T' else (behaviours.get(c[1]) == 'discard')
        return (bool(t[2]) and all(gone(c) for c in t[2])) or any(emptied(c) for c in t[2])
    if emptied(spec): ctx.label('plain:node-emptied-by-discard')
    if depth_of(spec) >= 2 and ('discard' in behaviours.values() or 'discard' in tokb.values()):
        ctx.nontrivial(['plain', spec, behaviours, tokb], sample={'tree': spec, 'behaviours': behaviours, 'token_behaviours': tokb, 'result': str(want)[:200]})


@st.composite
def plain_cases(draw):
    return {'tree': draw(trees(3)), 'tok_behaviours': {ty: draw(st.sampled_from(['wrap', 'discard', 'discard', None])) for ty in ('X', 'Y')},
            'behaviours': {nm: draw(st.sampled_from(['wrap', 'wrap', 'count', 'discard', None])) for nm in NODE_NAMES}}


@st.composite
def variant_cases(draw):
    return {'tree': draw(trees(3)), 'token_cb': draw(st.booleans()),
            'behaviours': {nm: draw(st.sampled_from(['wrap', 'wrap', 'count', 'discard', None])) for nm in NODE_NAMES}}


def phases(tier):
    k = 12 if tier == 'thorough' else 1
    return [Phase('embedded-vs-afterwards', 'hypothesis', strategy=embedded_cases(), max_examples=16000 * k),
            Phase('four-classes-agree', 'hypothesis', strategy=variant_cases(), max_examples=16000 * k, check=check_variants),
            Phase('four-classes-vs-reference', 'hypothesis', strategy=plain_cases(), max_examples=16000 * k, check=check_plain)]
