"""C10  A Lark instance is a pure function of its input: reusable and thread-safe."""
import itertools, threading, sys
from hypothesis import strategies as st
from vlib.harness import Phase, Violation, blame_lark
from vlib import sched
import lark
from lark import Lark, Token, Tree, Transformer
from lark.indenter import Indenter, DedentError
from lark.exceptions import UnexpectedInput, LarkError
from lark.reconstruct import Reconstructor
import lark.lexer as LX, lark.lark as LL, lark.parser_frontends as PF, lark.tree_matcher as TM
import lark.parsers.earley as EA, lark.parsers.earley_forest as EF, lark.parsers.xearley as XE, lark.parsers.lalr_parser as LP, lark.parsers.lalr_parser_state as LPS

ID = 'C10'
LEVEL = 'exploration'
RULE = ('(A) generated call histories on one long-lived instance per configuration (LALR basic/contextual, Earley basic/dynamic; with a pure '
        'lexer callback; with an Indenter post-lexer; propagate_positions; embedded pure transformer): parse(ok), parse(bad), lex consumed '
        'fully (also with dont_ignore) or for j tokens then dropped, scan consumed partially, parse_interactive fed j tokens then dropped or driven into an error, '
        'on_error parse, construction of other instances, Reconstructor use; after every completed call its outcome (tree with positions, '
        'or exception class and position) must equal that of the same call on a fresh instance. (B) owned thread schedules: two threads '
        'call parse/lex/scan on one freshly constructed instance under a sys.settrace scheduler that runs one thread at a time and switches '
        '(C) generated grammars with shaping features: one instance parses a series of inputs twice, each result equal to a fresh instance\'s and earlier results unchanged afterwards. '
        'Schedules switch at chosen line events inside the functions that lazily initialise shared state; ALL schedules with <= 2 pre-emptions over the '
        'yield points are enumerated (<= 3 sampled in thorough); for the parser engines (Earley driver, forest-to-tree conversion, LALR driver) every '
        'single pre-emption at every line is enumerated; each thread\'s outcome must equal the sequential outcome. Non-trivial = '
        '(A) history with a failed or abandoned call before the checked one, (B) schedule with a pre-emption inside a lazily-'
        'initialising function; distinct = history / (configuration, schedule)')
ASSUMPTIONS = ['thread interleavings are explored at line granularity inside the traced functions; operations inside C code are atomic under the GIL',
               'configurations contain no user-supplied stateful callbacks (the Indenter is lark\'s own stateful post-lexer, covered by the sequential clause only)']


class Ind(Indenter):
    NL_type = '_NL'; OPEN_PAREN_types = ['LPAR']; CLOSE_PAREN_types = ['RPAR']; INDENT_type = '_INDENT'; DEDENT_type = '_DEDENT'; tab_len = 8


G_STMT = 'start: stmt+\nstmt: KW NAME ";" | NAME "=" expr ";" | "{" start "}"\n?expr: NAME | NUM | expr "+" NUM\nKW: "if"\nNAME: /[a-z]+/\nNUM: /[0-9]+/\n%ignore " "\n%ignore /\\n/\n'
G_IND = ('start: (_NL | stmt)*\nstmt: NAME _NL [_INDENT stmt+ _DEDENT] | NAME LPAR [NAME] RPAR _NL\nNAME: /[a-z]+/\nLPAR: "("\nRPAR: ")"\n'
         '_NL: /(\\r?\\n[\\t ]*)+/\n%declare _INDENT _DEDENT\n%ignore /[\\t ]+/\n')
TEXTS_STMT = ['if x;', 'a = 1;', 'a = b + 2 ;\nif c;', '{ if a ; }', 'if ;', 'a = ;', 'if x; }', 'a = 1 + ;', '{ a = b; if y; } c = 3;', '9', 'ab if cd ;']
TEXTS_IND = ['a\n', 'a\n  b\n  c\nd\n', 'a\n  b\n    c\n', 'a\n  b\n c\n', 'a(b)\n', 'a(\n  b)\nc\n', 'a\n    b\n  c\n', 'a\n\tb\n', 'a(\n', 'a\n b\n  c\n d\ne\n']


def upper_name(t):
    return t.update(value=t.value.upper())


class T(Transformer):
    def stmt(self, ch): return ('stmt', tuple(str(c) if isinstance(c, Token) else c for c in ch))
    def NUM(self, t): return ('num', str(t))


CONFIGS = {
    'lalr-contextual': lambda: (Lark(G_STMT, parser='lalr'), TEXTS_STMT),
    'lalr-noplaceholders': lambda: (Lark(G_STMT, parser='lalr', maybe_placeholders=False), TEXTS_STMT),
    'lalr-basic-pp': lambda: (Lark(G_STMT, parser='lalr', lexer='basic', propagate_positions=True), TEXTS_STMT),
    'lalr-callback': lambda: (Lark(G_STMT, parser='lalr', lexer_callbacks={'NAME': upper_name}), TEXTS_STMT),
    'lalr-basic-callback': lambda: (Lark(G_STMT, parser='lalr', lexer='basic', lexer_callbacks={'NAME': upper_name}), TEXTS_STMT),
    'lalr-transformer': lambda: (Lark(G_STMT, parser='lalr', transformer=T()), TEXTS_STMT),
    'earley-dynamic': lambda: (Lark(G_STMT, parser='earley'), TEXTS_STMT),
    'earley-basic': lambda: (Lark(G_STMT, parser='earley', lexer='basic', propagate_positions=True), TEXTS_STMT),
    'lalr-indenter': lambda: (Lark(G_IND, parser='lalr', postlex=Ind()), TEXTS_IND),
    'lalr-basic-indenter': lambda: (Lark(G_IND, parser='lalr', lexer='basic', postlex=Ind()), TEXTS_IND),
}


def norm(x):
    if isinstance(x, Tree):
        m = x.meta
        mm = None if m.empty else (m.start_pos, m.end_pos, m.line, m.column)
        return ('N', str(x.data), mm, tuple(norm(c) for c in x.children))
    if isinstance(x, Token): return ('T', x.type, str(x), x.start_pos, x.line, x.column)
    if isinstance(x, tuple): return tuple(norm(c) for c in x)
    return repr(x) if not isinstance(x, (str, int, type(None))) else x


def err(e):
    return ('err', type(e).__name__, getattr(e, 'pos_in_stream', None), getattr(e, 'line', None), getattr(e, 'column', None),
            getattr(getattr(e, 'token', None), 'type', None))


_KEEP = []      # abandoned iterators stay referenced until the history ends (a generator that is merely dropped gets closed at once)


def do_call(p, op, text, j, cfg, keep=False):
    """perform one API call completely (or abandon it after j items) and return a comparable outcome"""
    try:
        if op == 'parse':
            return ('ok', norm(p.parse(text)))
        if op == 'lex':
            return ('ok', [norm(t) for t in p.lex(text)])
        if op == 'lex-dont-ignore':
            return ('ok', [norm(t) for t in p.lex(text, dont_ignore=True)])
        if op == 'lex-partial':
            it = p.lex(text); out = []
            if keep: _KEEP.append(it)
            for _ in range(j):
                try: out.append(norm(next(it)))
                except StopIteration: break
            return ('ok', out)           # generator abandoned here
        if op == 'scan-partial':
            it = p.scan(text); out = []
            if keep: _KEEP.append(it)
            for _ in range(j):
                try:
                    m = next(it); out.append((tuple(m.range), norm(m.value)))
                except StopIteration: break
            return ('ok', out)
        if op == 'interactive-partial':
            ip = p.parse_interactive(text); out = []
            it = ip.iter_parse()
            if keep: _KEEP.append((ip, it))
            for _ in range(j):
                try: out.append(norm(next(it)))
                except StopIteration: break
            return ('ok', out, sorted(ip.accepts()))
        if op == 'on_error':
            seen = []
            def h(e):
                seen.append(err(e)); return True
            return ('ok', norm(p.parse(text, on_error=h)), seen)
        if op == 'reconstruct':
            t = p.parse(text)
            return ('ok', Reconstructor(p).reconstruct(t))
    except (UnexpectedInput, DedentError) as e:
        return err(e)
    raise ValueError(op)


def ops_for(cfg):
    ops = ['parse', 'lex', 'lex-partial']
    if 'indenter' not in cfg: ops += ['lex-dont-ignore']
    if cfg.startswith('lalr'):
        ops += ['interactive-partial', 'on_error'] if 'indenter' not in cfg else []
        if 'indenter' not in cfg and 'transformer' not in cfg: ops += ['scan-partial']
    if cfg == 'lalr-noplaceholders': ops += ['reconstruct', 'reconstruct']
    return ops


@blame_lark
def check_history(case, ctx):
    cfg = case['config']
    shared, texts = CONFIGS[cfg]()
    ops = ops_for(cfg)
    dirty = False
    del _KEEP[:]
    keep = bool(case.get('keep', True))
    for k, (oi, ti, j, other) in enumerate(case['calls']):
        op = ops[oi % len(ops)]; text = texts[ti % len(texts)]
        if other:
            # another instance of the same or another grammar is created (and used) in between
            o2, t2 = CONFIGS[sorted(CONFIGS)[other % len(CONFIGS)]]()
            try: o2.parse(t2[ti % len(t2)])
            except (UnexpectedInput, DedentError): pass
        got = do_call(shared, op, text, j, cfg, keep=keep)
        fresh, _ = CONFIGS[cfg]()
        want = do_call(fresh, op, text, j, cfg)
        if got != want:
            raise Violation('outcome on a reused instance differs from a fresh instance', config=cfg, call=[op, text, j], history=case['calls'][:k],
                            reused=str(got)[:400], fresh=str(want)[:400])
        if dirty:
            ctx.nontrivial([cfg, case['calls'][:k + 1]], sample={'config': cfg, 'calls': [[ops[a % len(ops)], texts[b % len(texts)], c] for a, b, c, _d in case['calls'][:k + 1]]})
        if got[0] == 'err' or op.endswith('partial'): dirty = True
    ctx.label('history:' + cfg)


@st.composite
def histories(draw):
    return {'config': draw(st.sampled_from(sorted(CONFIGS))), 'keep': draw(st.booleans()),
            'calls': draw(st.lists(st.tuples(st.integers(0, 9), st.integers(0, 12), st.integers(0, 5), st.sampled_from([0, 0, 0, 1, 2, 5, 7])), min_size=2, max_size=10).map(lambda l: [list(x) for x in l]))}


# ------------------------------------------------------------------ (B) owned schedules
FILES = {LX.__file__, LL.__file__, PF.__file__, TM.__file__}
# functions that read or lazily initialise state shared between calls (pure local computations such as _create_unless are
# not yield points: switching inside them cannot be observed by the other thread)
FUNCS = {'_build_scanner', 'scanner', 'search_scanner', 'next_token', '_get_width', 'search_start', '_scan', 'match_tree'}
SCHED_CONFIGS = {
    'basic-callback': (lambda: Lark(G_STMT, parser='lalr', lexer='basic', lexer_callbacks={'NAME': upper_name}), 'parse', 'ab = cd ; if ef ;'),
    'contextual-callback': (lambda: Lark(G_STMT, parser='lalr', lexer_callbacks={'NAME': upper_name}), 'parse', 'ab = cd ; if ef ;'),
    'basic-lex': (lambda: Lark(G_STMT, parser='lalr', lexer='basic'), 'lex', 'if x; a = 1;'),
    'contextual-scan': (lambda: Lark(G_STMT, parser='lalr'), 'scan', '9 if x; 9 a = 1; 9'),
    'earley-basic': (lambda: Lark(G_STMT, parser='earley', lexer='basic'), 'parse', 'if x;'),
}


# the parser engines: everything the parser object keeps between calls is read here; one pre-emption (the other thread runs a whole
# call in between) at every line of the Earley driver / forest-to-tree conversion / LALR driver
G_AMB = 'start: e\ne: e "+" e | N\nN: /[0-9]/\n%ignore " "\n'
ENGINE_FILES = {EA.__file__, EF.__file__, XE.__file__, LP.__file__, LPS.__file__}
ENGINE_FUNCS = {'parse', '_parse', 'transform', 'visit', 'parse_from_state', 'feed_token'}
ENGINE_CONFIGS = {
    'engine-earley-resolve': (lambda: Lark(G_AMB, parser='earley'), 'parse', '1+2+3'),
    'engine-earley-explicit': (lambda: Lark(G_AMB, parser='earley', ambiguity='explicit'), 'parse', '1+2+3'),
    'engine-earley-basic-stmt': (lambda: Lark(G_STMT, parser='earley', lexer='basic'), 'parse', 'a = b + 2 ;'),
    'engine-lalr': (lambda: Lark(G_STMT, parser='lalr'), 'parse', 'a = b + 2 ; if c;'),
}
SCHED_CONFIGS.update(ENGINE_CONFIGS)


def _traced(name):
    return (ENGINE_FILES, ENGINE_FUNCS) if name in ENGINE_CONFIGS else (FILES, FUNCS)


def thread_call(p, op, text):
    try:
        if op == 'parse': return norm(p.parse(text))
        if op == 'lex': return [norm(t) for t in p.lex(text)]
        return [(tuple(m.range), norm(m.value)) for m in p.scan(text)]
    except UnexpectedInput as e:
        return err(e)


_seq_cache = {}


def sequential(name):
    if name not in _seq_cache:
        mk, op, text = SCHED_CONFIGS[name]
        want = thread_call(mk(), op, text)
        s = sched.Sched([], *_traced(name))
        p = mk()
        s.run({'A': lambda: thread_call(p, op, text), 'B': lambda: thread_call(p, op, text)})
        lazy = [i for i, (fn, _ln) in enumerate(s.points) if fn in ('_build_scanner', 'scanner', 'search_scanner', '_get_width')]
        _seq_cache[name] = (want, s.step, lazy)
    return _seq_cache[name]


def check_schedule(case, ctx):
    name = case['config']; switch = case['switch']
    mk, op, text = SCHED_CONFIGS[name]
    want, npoints, lazy = sequential(name)
    p = mk()
    s = sched.Sched(switch, *_traced(name))
    try:
        r = s.run({'A': lambda: thread_call(p, op, text), 'B': lambda: thread_call(p, op, text)})
    except RuntimeError as e:
        raise Violation('threads deadlock under an owned schedule', config=name, switch_points=switch)
    for th in ('A', 'B'):
        if r[th] != want:
            where = [s.points[i] for i in switch if i < len(s.points)]
            raise Violation('concurrent call returns a different outcome than the sequential call', config=name, call=[op, text], thread=th,
                            switch_points=switch, switched_at=[list(x) for x in where], got=str(r[th])[:300], want=str(want)[:300])
    ctx.label('schedule:' + name)
    if any(i in lazy for i in switch) or (name in ENGINE_CONFIGS and switch and switch[0] < npoints):
        ctx.nontrivial([name, switch], sample={'config': name, 'switch_points': switch, 'functions': [list(s.points[i]) for i in switch if i < len(s.points)]})


def schedule_cases(max_points, k):
    def gen(shard, nshards):
        i = 0
        for name in sorted(SCHED_CONFIGS):
            want, npoints, lazy = sequential(name)
            lim = min(npoints, max_points)
            if name in ENGINE_CONFIGS:
                # one pre-emption at every yield point (the other thread then runs its whole call)
                for pt in range(min(npoints, max_points * 30)):
                    i += 1
                    if i % nshards == shard:
                        yield {'config': name, 'switch': [pt]}
                continue
            for kk in range(1, k + 1):
                for sw in itertools.combinations(range(lim), kk):
                    # keep every schedule whose first pre-emption is at one of the first 40 points or inside a lazy initialiser
                    if kk == 2 and not (sw[0] in lazy or sw[0] < 24): continue
                    i += 1
                    if i % nshards == shard:
                        yield {'config': name, 'switch': list(sw)}
    return gen


# ------------------------------------------------------------------ (C) generated grammars: one instance parses a series of inputs
O_REUSE = None


def reuse_cases():
    from vlib import gramgen
    global O_REUSE
    O_REUSE = gramgen.Opts(terms='tok', max_rules=4, shaping=True, templates=True, ignore=True, acyclic=True)
    return st.one_of(inline_first_cases(), st.tuples(gramgen.grammar_and_inputs(O_REUSE, max_len=8, n=4), st.booleans(), st.booleans()).map(
        lambda t: {'g': t[0]['g'], 'texts': t[0]['texts'], 'mp': t[1], 'pp': t[2]}))


# grammars around the tree builder's in-place child-list re-use: the first kept child of a rule is an inlined rule (or a repetition)
# whose alternatives mix filtered tokens, kept tokens and [optional] placeholders
INL_ALTS = ['"c" [A]', '[A] "c"', 'A [B]', '"c"', '[A] [B]', 'A+', '"c" B?', '[A "c"]', 'B', '"c" [A] [B]', '("c" | [B])']
INL_HEADS = ['start: _i {T}*', 'start: _i {T}* -> al', 'start: x\n?x: _i {T}*', 'start: _i _i {T}?', 'start: (_i | {T}) {T}*', 'start: _j {T}*\n_j: _i [B]', '!start: _i {T}*']
INL_TAILS = ['A', 'B', '"c"', '(A | B)', 'y']


@st.composite
def inline_first_cases(draw):
    alts = draw(st.lists(st.sampled_from(INL_ALTS), min_size=1, max_size=3, unique=True))
    head = draw(st.sampled_from(INL_HEADS)).replace('{T}', draw(st.sampled_from(INL_TAILS)))
    gtext = head + '\n_i: ' + '\n    | '.join(alts) + '\ny: A B?\nA: "a"\nB: "b"\n%ignore " "\n'
    texts = [''.join(draw(st.lists(st.sampled_from(['a', 'b', 'c', ' ']), max_size=5))) for _ in range(6)]
    return {'gtext': gtext, 'texts': texts, 'mp': draw(st.integers(0, 3)) != 0, 'pp': draw(st.booleans())}


@blame_lark
def check_reuse(case, ctx):
    """every parse on a long-lived instance equals the parse on a fresh instance, and trees returned earlier do not change afterwards
    (per-rule callbacks, tree-builder state and caches live on the instance)"""
    from vlib import gram
    from lark.exceptions import GrammarError
    gtext = case.get('gtext') or gram.render_grammar(case['g'])
    for parser, lexer in (('lalr', 'contextual'), ('earley', 'basic'), ('earley', 'dynamic')):
        kw = dict(parser=parser, lexer=lexer, maybe_placeholders=case['mp'], propagate_positions=case['pp'])
        try:
            p = Lark(gtext, **kw)
        except GrammarError:
            ctx.label('reuse:GrammarError'); continue
        kept = []
        for w in list(case['texts']) * 2:
            outs = []
            for q in (p, Lark(gtext, **kw)):
                try:
                    t = q.parse(w); outs.append(('ok', norm(t)))
                    if q is p: kept.append((w, t, outs[-1]))
                except UnexpectedInput as e:
                    outs.append(err(e))
            if outs[0] != outs[1]:
                raise Violation('a re-used instance parses differently from a fresh instance', grammar=gtext, engine=[parser, lexer], options={'maybe_placeholders': case['mp'], 'propagate_positions': case['pp']},
                                text=w, texts_before=[x[0] for x in kept][:-1], reused=str(outs[0])[:300], fresh=str(outs[1])[:300])
        for w, t, snap in kept:
            if ('ok', norm(t)) != snap:
                raise Violation('a tree returned by an earlier parse() changed during later calls', grammar=gtext, engine=[parser, lexer], text=w,
                                was=str(snap)[:300], now=str(norm(t))[:300])
        if len(kept) >= 4:
            ctx.nontrivial(['reuse', gtext, parser, lexer, case['mp'], case['pp'], case['texts']], sample={'grammar': gtext, 'engine': [parser, lexer], 'texts': case['texts']})
    ctx.label('reuse:checked')


def phases(tier):
    if tier == 'thorough':
        return [Phase('histories', 'hypothesis', strategy=histories(), max_examples=40000, check=check_history),
                Phase('generated-grammars-reuse', 'hypothesis', strategy=reuse_cases(), max_examples=40000, check=check_reuse),
                Phase('schedules-all-<=2-preemptions', 'enumerate', cases=schedule_cases(160, 2), exhaustive=True, check=check_schedule),
                Phase('schedules-3-preemptions-sampled', 'hypothesis',
                      strategy=st.tuples(st.sampled_from(sorted(SCHED_CONFIGS)), st.lists(st.integers(0, 159), min_size=3, max_size=3, unique=True)).map(
                          lambda t: {'config': t[0], 'switch': sorted(t[1])}), max_examples=40000, check=check_schedule)]
    return [Phase('histories', 'hypothesis', strategy=histories(), max_examples=4000, check=check_history),
            Phase('generated-grammars-reuse', 'hypothesis', strategy=reuse_cases(), max_examples=3000, check=check_reuse),
            Phase('schedules-all-<=2-preemptions', 'enumerate', cases=schedule_cases(90, 2), exhaustive=True, check=check_schedule)]


check = check_history
