#!/venv/bin/python
"""MANIFEST.setup_cmd: offline set-up.  Verifies the interpreter and packages the checks need and installs
the optional ones (jsonschema for evidence validation, atheris for the coverage-guided C08 target) from
the local wheelhouse into /verif/.deps.  Nothing is fetched from a network."""
import os, subprocess, sys
HERE = os.path.dirname(os.path.abspath(__file__))
WHEELS = '/opt/veriftools/wheels'
def have(mod, extra=None):
    code = 'import sys; sys.path.insert(0, %r); import %s' % (extra or '', mod)
    return subprocess.run([sys.executable, '-c', code], capture_output=True).returncode == 0
def pip(args):
    return subprocess.run([sys.executable, '-m', 'pip', 'install', '--no-index', '--find-links', WHEELS, '-q'] + args).returncode
rc = 0
if not have('hypothesis'):
    pip(['hypothesis'])
    if not have('hypothesis'):
        print('hypothesis is not available'); rc = 1
deps = os.path.join(HERE, '.deps')
for mod, pkg in (('jsonschema', 'jsonschema'), ('atheris', 'atheris')):
    if not have(mod, deps):
        pip(['--target', deps, pkg])
        print('%s: %s' % (pkg, 'installed' if have(mod, deps) else 'NOT available (optional)'))
if not have('lark', '/repo'):
    print('cannot import lark from /repo'); rc = 1
print('setup ok' if rc == 0 else 'setup failed')
sys.exit(rc)
