#!/bin/bash
# usage: tools/seedsweep.sh [name-prefix]     re-runs the quick check(s) recorded in seeded/<name>/meta.json against a scratch export of
# /repo HEAD with seeded/<name>/patch.diff applied (LARK_REPO points the checks at it); every recorded catch must still be rc=1.
# Scratch trees live under /tmp and are removed after each seed.  Prints one line per seed and a summary; exit 1 if a catch was lost.
lost=0; n=0
for d in /verif/seeded/${1}*/; do
  name=$(basename $d); [ -f $d/patch.diff ] || continue
  if grep -q '"superseded"' $d/meta.json; then echo "$name: superseded by a later fix in /repo, skipped"; continue; fi
  wt=$(mktemp -d /tmp/seedsweep-XXXX); git -C /repo archive HEAD | tar -x -C $wt
  if ! (cd $wt && git apply --unsafe-paths -p1 $d/patch.diff 2>/dev/null || patch -s -p1 < $d/patch.diff >/dev/null 2>&1); then echo "$name: PATCH DOES NOT APPLY"; lost=1; rm -rf $wt; continue; fi
  props=$(python3 -c "import json,sys; print(' '.join(c['property'] for c in json.load(open('$d/meta.json'))['checks'] if c['rc']==1))")
  line="$name:"
  for p in $props; do
    t0=$(date +%s); LARK_REPO=$wt /verif/run.py $p --tier quick >/tmp/seedsweep-$p.log 2>&1; rc=$?
    line="$line $p rc=$rc ($(( $(date +%s)-t0 ))s)"; [ $rc -ne 1 ] && lost=1
  done
  echo "$line"; n=$((n+1)); rm -rf $wt
done
echo "swept $n seeds, lost=$lost"; exit $lost
