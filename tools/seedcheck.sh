#!/bin/bash
# usage: tools/seedcheck.sh <seed-dir> <name> <property> [more properties...]
# Confirms a seeded change kept in a scratch worktree (suite passes with it; demo fails with it and passes without),
# then runs the quick checks of the given properties against the changed tree (LARK_REPO) and stores everything in seeded/<name>/.
wt=$1; name=$2; shift 2
out=/verif/seeded/$name; mkdir -p $out
cp $wt/OUT/patch.diff $wt/OUT/demo.py $out/ 2>/dev/null; cp $wt/OUT/README.txt $out/README.txt 2>/dev/null
echo "== $name: demo with change"; /venv/bin/python $wt/OUT/demo.py $wt >/tmp/seed-demo-with.log 2>&1; with=$?
base=$(mktemp -d /tmp/lark-base-XXXX); git -C /repo archive HEAD lark | tar -x -C $base
/venv/bin/python $wt/OUT/demo.py $base >/tmp/seed-demo-without.log 2>&1; without=$?
rm -rf $base
echo "demo: with change rc=$with, without rc=$without"
echo "== suite with change"; (cd $wt && PYTHONPATH=$wt /venv/bin/python -m pytest -q -p no:cacheprovider -x tests >/tmp/seed-suite.log 2>&1); suite=$?
echo "suite rc=$suite"
res=""
for p in "$@"; do
  t0=$(date +%s)
  LARK_REPO=$wt /verif/run.py $p --tier quick >/tmp/seed-check-$p.log 2>&1; rc=$?
  what=$(grep -m1 '^violation:' /tmp/seed-check-$p.log | cut -c1-160)
  echo "check $p rc=$rc ($(( $(date +%s)-t0 ))s) $what"
  res="$res{\"property\":\"$p\",\"rc\":$rc,\"what\":$(python3 -c 'import json,sys;print(json.dumps(sys.argv[1]))' "$what")},"
done
python3 - "$out" "$name" "$with" "$without" "$suite" "[${res%,}]" <<'PY'
import json,sys,os
out,name,w,wo,suite,res=sys.argv[1:7]
meta={'name':name,'demo_rc_with_change':int(w),'demo_rc_without_change':int(wo),'suite_rc_with_change':int(suite),'checks':json.loads(res),
      'how_run':'tools/seedcheck.sh: demo.py against the scratch worktree and against an export of /repo HEAD; pytest -x tests in the worktree; run.py <property> --tier quick with LARK_REPO=<worktree>'}
p=os.path.join(out,'meta.json')
old=json.load(open(p)) if os.path.exists(p) else {}
old.update(meta); json.dump(old,open(p,'w'),indent=1)
PY
