#!/bin/bash
# usage: tools/runall.sh <seed> [tier]  - runs every registered check once and prints one line per check
seed=${1:-0}; tier=${2:-quick}
for id in C01 C02 C03 C04 C05 C06 C07 C08 C09 C10 C11 C12 C13 C14 C15 C16 C17 C18 C19 C20; do
  t0=$(date +%s)
  VERIF_SEED=$seed /verif/run.py $id --tier $tier > /tmp/runall-$id-$seed.log 2>&1; rc=$?
  line=$(grep -E "^$id tier=" /tmp/runall-$id-$seed.log | cut -c1-160)
  echo "rc=$rc $(( $(date +%s)-t0 ))s $line"
done
