#!/venv/bin/python
"""Regenerates MANIFEST.json from the table below (kept in one place so that it stays valid)."""
import json, os
HERE = os.path.dirname(os.path.dirname(os.path.abspath(__file__)))
CHECKS = json.load(open(os.path.join(HERE, 'tools', 'manifest_checks.json')))
m = {
 "version": 1,
 "setup_cmd": "/venv/bin/python /verif/setup_verif.py",
 "hooks": {"guard": "LARK_VERIF", "enable": "no source hooks: checks import lark from /repo's working tree (LARK_REPO overrides for scratch copies) and observe through public API, debug=True tables and sys.settrace",
           "baseline_off_cmd": "cd /repo && /venv/bin/python -m pytest -ra -q -p no:cacheprovider --timeout=900 --continue-on-collection-errors", "source_commits": [], "add_only": True},
 "engines": [{"name": "run.py", "path": "/verif/run.py", "serves_properties": [c["property_id"] for c in CHECKS["checks"]],
              "kind_free_text": "Hypothesis (seeded, 16 sharded processes) + exhaustive enumeration of finite sub-spaces, against independent reference oracles in vlib/"}],
 "checks": [], "notes": CHECKS.get("notes", ""), "not_applicable": CHECKS.get("not_applicable", []),
}
for c in CHECKS["checks"]:
    pid = c["property_id"]
    m["checks"].append({
        "property_id": pid,
        "quick_cmd": "/venv/bin/python /verif/run.py %s --tier quick" % pid,
        "thorough_cmd": "/venv/bin/python /verif/run.py %s --tier thorough" % pid,
        "evidence_file": "/verif/evidence/%s.json" % pid,
        "replay_cmd_template": "/venv/bin/python /verif/run.py %s --replay {path}" % pid,
        "engine": "run.py",
        "level_claimed": {"category": c["category"], "text": c["text"], "design_ref": c.get("design_ref", "DESIGN.md section 4, " + pid)},
        "level_note": c["level_note"],
        "technique": c["technique"],
    })
claimed = {c["property_id"] for c in CHECKS["checks"]}
for line in open(os.path.join(HERE, 'properties.jsonl')):
    pid = json.loads(line)["id"]
    if pid not in claimed and pid not in {e["property_id"] for e in m["not_applicable"]}:
        m["not_applicable"].append({"property_id": pid, "reason": CHECKS["pending_reason"]})
json.dump(m, open(os.path.join(HERE, 'MANIFEST.json'), 'w'), indent=1)
try:
    import sys; sys.path.insert(0, os.path.join(HERE, '.deps')); import jsonschema
    jsonschema.validate(m, json.load(open('/root/.vp/MANIFEST.schema.json'))); print('MANIFEST.json valid, %d checks' % len(m['checks']))
except ImportError:
    print('written (jsonschema not available to validate)')
