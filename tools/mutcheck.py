#!/venv/bin/python
"""Sensitivity protocol: apply each deliberate breakage from mutants/mutants.json to a scratch copy of
/repo/lark, run the quick check of the targeted property against it (LARK_REPO), require exit 1.
usage: tools/mutcheck.py [-p Cnn] [-m mutant_id] [--tier quick] [--suite]   (scratch copies are removed)"""
import os, sys, json, shutil, subprocess, tempfile, time, argparse
HERE = os.path.dirname(os.path.dirname(os.path.abspath(__file__)))

def main():
    ap = argparse.ArgumentParser()
    ap.add_argument('-p', '--property'); ap.add_argument('-m', '--mutant'); ap.add_argument('--tier', default='quick')
    ap.add_argument('--suite', action='store_true', help='also run the repository test-suite on the mutant')
    ap.add_argument('--phase')
    ns = ap.parse_args()
    muts = json.load(open(os.path.join(HERE, 'mutants', 'mutants.json')))
    results = []
    for m in muts:
        if ns.property and m['property'] != ns.property: continue
        if ns.mutant and m['id'] != ns.mutant: continue
        d = tempfile.mkdtemp(prefix='lark-mut-')
        try:
            shutil.copytree('/repo/lark', os.path.join(d, 'lark'))
            for e in m['edits']:
                path = os.path.join(d, e['file'])
                s = open(path).read()
                if s.count(e['old']) != 1:
                    print('MUTANT %s: pattern occurs %d times in %s' % (m['id'], s.count(e['old']), e['file'])); results.append((m['id'], 'bad-pattern')); break
                open(path, 'w').write(s.replace(e['old'], e['new']))
            else:
                suite = None
                if ns.suite:
                    shutil.copytree('/repo/tests', os.path.join(d, 'tests'))
                    r = subprocess.run(['/venv/bin/python', '-m', 'pytest', '-q', '-x', '-p', 'no:cacheprovider', 'tests'], cwd=d, capture_output=True, text=True,
                                       env=dict(os.environ, PYTHONPATH=d))
                    suite = 'suite-pass' if r.returncode == 0 else 'suite-FAIL'
                t0 = time.time()
                cmd = [os.path.join(HERE, 'run.py'), m['property'], '--tier', ns.tier]
                if ns.phase: cmd += ['--phase', ns.phase]
                r = subprocess.run(cmd, capture_output=True, text=True, env=dict(os.environ, LARK_REPO=d))
                what = [l for l in r.stdout.splitlines() if l.startswith('violation:')][:1]
                status = {0: 'MISSED', 1: 'caught', 2: 'HARNESS-ERROR'}.get(r.returncode, 'rc%d' % r.returncode)
                print('%-34s %-8s %-10s %5.0fs %s %s' % (m['id'], m['property'], status, time.time() - t0, suite or '', what[0][:150] if what else ''))
                if r.returncode == 2: print(r.stdout[-1500:], r.stderr[-1500:])
                results.append((m['id'], status))
        finally:
            shutil.rmtree(d, ignore_errors=True)
        sys.stdout.flush()
    shutil.rmtree(os.path.join(HERE, 'out'), ignore_errors=True) if False else None
    return 0

if __name__ == '__main__':
    sys.exit(main())
