#!/bin/bash
# usage: tools/with_rev.sh <git-rev> <command...>   runs the command with LARK_REPO pointing at a scratch export of /repo at <rev>
rev=$1; shift
d=$(mktemp -d /tmp/lark-rev-XXXXXX)
git -C /repo archive "$rev" lark | tar -x -C "$d"
LARK_REPO=$d "$@"; rc=$?
rm -rf "$d"; exit $rc
