import sys, time, os
sys.path[:0]=['/repo','/verif','/verif/.deps']
sys.setrecursionlimit(20000)
import warnings; warnings.simplefilter('ignore')
import logging; logging.disable(logging.CRITICAL)
from hypothesis import given, settings, seed, HealthCheck
import importlib; m = importlib.import_module(sys.argv[3])
from vlib import harness, gram
ctx=harness.Ctx(m,'quick',0,{})
worst=[0,None]
@seed(int(sys.argv[1]))
@settings(max_examples=int(sys.argv[2]), database=None, deadline=None, suppress_health_check=list(HealthCheck))
@given(eval(sys.argv[4], vars(m)))
def t(case):
    t0=time.time()
    open('/tmp/dbg_last_case.json','w').write(__import__('json').dumps(case))
    try:
        m.check(case, ctx)
    except harness.Violation as v:
        print('VIOL', v.what, v.detail); raise
    dt=time.time()-t0
    if dt>worst[0]: worst[0]=dt; worst[1]=case; print('worst',dt, file=sys.stderr)
    if dt>3: print(gram.render_grammar(case['g']), case['texts'])
import faulthandler; faulthandler.dump_traceback_later(60, exit=True)
t()
print(ctx.labels)
