#!/bin/bash
# runs the repository's baseline test command (guard off) and prints a one-line summary
cd /repo && /venv/bin/python -m pytest -q -p no:cacheprovider --timeout=900 --continue-on-collection-errors --junitxml=/tmp/repotests.xml >/tmp/repotests.log 2>&1
rc=$?
/venv/bin/python - <<'PY'
import xml.etree.ElementTree as ET
r=ET.parse('/tmp/repotests.xml').getroot()
s=r if r.tag=='testsuite' else r[0]
print('tests=%s failures=%s errors=%s skipped=%s'%(s.get('tests'),s.get('failures'),s.get('errors'),s.get('skipped')))
PY
echo "pytest rc=$rc"; rm -f /tmp/repotests.xml
exit $rc
