"""Chart-guided enumeration of the *unshaped* derivation trees of a token sequence over a BNF rule list
(lark's compiled Lark.rules: objects with .origin.name, .expansion[i].name/.is_term, .alias, .options).
Independent of the Earley/SPPF code: a least fix-point chart says which (symbol, i, j) are derivable, the
enumerator only recurses into such triples, so a triple recurring on its own path is a true derivation cycle."""
import collections
from .gram import Cyclic, TooMany


def node_name(r):
    return str(r.alias or (r.options.template_source if r.options else None) or r.origin.name)


def static_cyclic(lrules):
    nullable = set(); ch = True
    while ch:
        ch = False
        for r in lrules:
            if r.origin.name not in nullable and all((not s.is_term) and s.name in nullable for s in r.expansion):
                nullable.add(r.origin.name); ch = True
    edges = collections.defaultdict(set)
    for r in lrules:
        for k, sy in enumerate(r.expansion):
            if sy.is_term: continue
            if all((not o.is_term) and o.name in nullable for q, o in enumerate(r.expansion) if q != k):
                edges[r.origin.name].add(sy.name)
    def reach(a):
        seen = set(); st = list(edges[a])
        while st:
            b = st.pop()
            if b in seen: continue
            seen.add(b); st += list(edges[b])
        return seen
    return any(a in reach(a) for a in list(edges))


def enum_derivs(lrules, toks, start, cap=3000, with_rule_index=False):
    """toks: list of token type names.  Returns set of ('N', name, kids) / ('T', type, index)."""
    by = collections.defaultdict(list)
    for idx, r in enumerate(lrules): by[r.origin.name].append((idx, r))
    n = len(toks)
    D = collections.defaultdict(set)
    def seq_ends(exp, i):
        cur = {i}
        for sy in exp:
            nxt = set()
            for p_ in cur:
                if sy.is_term:
                    if p_ < n and toks[p_] == sy.name: nxt.add(p_ + 1)
                else: nxt |= D[(sy.name, p_)]
            cur = nxt
            if not cur: break
        return cur
    ch = True
    while ch:
        ch = False
        for r in lrules:
            for i in range(n + 1):
                e = seq_ends(r.expansion, i)
                if not e <= D[(r.origin.name, i)]:
                    D[(r.origin.name, i)] |= e; ch = True
    feas_memo = {}
    def feas(exp, k, i, j):
        key = (id(exp), k, i, j)
        if key in feas_memo: return feas_memo[key]
        if k == len(exp): r_ = i == j
        else:
            sy = exp[k]
            if sy.is_term: r_ = i < j and toks[i] == sy.name and feas(exp, k + 1, i + 1, j)
            else: r_ = any(m <= j and feas(exp, k + 1, m, j) for m in D[(sy.name, i)])
        feas_memo[key] = r_; return r_
    memo = {}
    active = set()
    def sym(name, is_term, i, j):
        if is_term:
            return [('T', name, i)] if j == i + 1 and toks[i] == name else []
        key = (name, i, j)
        if key in memo: return memo[key]
        if key in active: raise Cyclic(name)
        active.add(key)
        out = []
        try:
            for idx, r in by[name]:
                if not feas(r.expansion, 0, i, j): continue
                for kids in seq(r.expansion, 0, i, j):
                    out.append(('N', ('%d' % idx) if with_rule_index else node_name(r), kids))
                    if len(out) > cap: raise TooMany()
        finally:
            active.discard(key)
        memo[key] = out
        return out
    def seq(exp, k, i, j):
        if k == len(exp): return [()] if i == j else []
        out = []; sy = exp[k]
        ms = [i + 1] if sy.is_term else sorted(D[(sy.name, i)])
        for m in ms:
            if m > j or not feas(exp, k + 1, m, j): continue
            heads = sym(sy.name, sy.is_term, i, m)
            if not heads: continue
            tails = seq(exp, k + 1, m, j)
            for h in heads:
                for t in tails:
                    out.append((h,) + t)
                    if len(out) > cap: raise TooMany()
        return out
    if n not in D[(start, 0)]:
        return set()
    return set(sym(start, False, 0, n))
