"""Grammar AST (plain JSON values), renderer to .lark text, and the reference semantics R1 (span
fix-point recogniser) and R3 (chart-guided derivation enumerator with the documented tree shaping).

Nothing here calls into lark: the oracle never goes through load_grammar.py.

grammar = {'rules': [rule], 'terms': [term], 'ignore': [term-name]}
rule    = {'name', 'mod' ('' '?' '!' '?!'), 'prio' (None|int), 'params': [str], 'alts': [{'items': [item], 'alias': None|str}]}
term    = {'name', 'prio' (None|int), 'pat': {'kind': 'str'|'re', 'value', 'flags'}}
item    = ['t', NAME] | ['n', rule] | ['p', param] | ['lit', text, flags] | ['re', regex, flags]
        | ['grp', [[item]..]] | ['maybe', [[item]..]] | ['opt', item] | ['star', item] | ['plus', item]
        | ['rep', item, n, m] | ['tmpl', name, [item]]
Shaped trees are nested tuples: ('N', name, (children...)) | ('T', type|None, value, start) | None
"""
import re, json, itertools, collections


class Cyclic(Exception):
    pass


class TooMany(Exception):
    pass


# ------------------------------------------------------------------------ rendering
def esc_str(s):
    out = []
    for ch in s:
        if ch == '"': out.append('\\"')
        elif ch == '\\': out.append('\\\\')
        elif ch == '\n': out.append('\\n')
        elif ch == '\t': out.append('\\t')
        elif ch == '\r': out.append('\\r')
        else: out.append(ch)
    return '"' + ''.join(out) + '"'


def render_pat(p):
    if p['kind'] == 'str':
        return esc_str(p['value']) + p.get('flags', '')
    return '/' + p['value'].replace('/', '\\/') + '/' + p.get('flags', '')


def render_item(x):
    k = x[0]
    if k in ('t', 'n', 'p'): return x[1]
    if k == 'lit': return esc_str(x[1]) + (x[2] if len(x) > 2 else '')
    if k == 're': return '/' + x[1].replace('/', '\\/') + '/' + (x[2] if len(x) > 2 else '')
    if k == 'grp': return '(' + ' | '.join(render_seq(a) for a in x[1]) + ')'
    if k == 'maybe': return '[' + ' | '.join(render_seq(a) for a in x[1]) + ']'
    if k == 'opt': return render_atom(x[1]) + '?'
    if k == 'star': return render_atom(x[1]) + '*'
    if k == 'plus': return render_atom(x[1]) + '+'
    if k == 'rep':
        return render_atom(x[1]) + ('~%d' % x[2] if x[2] == x[3] else '~%d..%d' % (x[2], x[3]))
    if k == 'tmpl': return '%s{%s}' % (x[1], ', '.join(render_item(a) for a in x[2]))
    raise ValueError(x)


def render_atom(x):
    if x[0] in ('opt', 'star', 'plus', 'rep'):
        return '(' + render_item(x) + ')'
    return render_item(x)


def render_seq(items):
    return ' '.join(render_item(i) for i in items)


def render_grammar(g, extra=''):
    out = []
    for r in g['rules']:
        head = r.get('mod', '') + r['name']
        if r.get('params'): head += '{' + ', '.join(r['params']) + '}'
        if r.get('prio') is not None: head += '.%d' % r['prio']
        alts = []
        for a in r['alts']:
            s = render_seq(a['items'])
            if a.get('alias'): s += ' -> ' + a['alias']
            alts.append(s)
        out.append(head + ': ' + '\n    | '.join(alts))
    for t in g['terms']:
        head = t['name'] + ('.%d' % t['prio'] if t.get('prio') is not None else '')
        out.append(head + ': ' + render_pat(t['pat']))
    for ig in g.get('ignore', []):
        out.append('%ignore ' + ig)
    if extra: out.append(extra)
    return '\n'.join(out) + '\n'


# ------------------------------------------------------------------------ terminals
def pat_regex(p):
    v = re.escape(p['value']) if p['kind'] == 'str' else p['value']
    fl = p.get('flags', '')
    return '(?%s:%s)' % (fl, v) if fl else '(?:%s)' % v


class Terms(object):
    """match lengths of every terminal of a grammar at every position of one text"""
    def __init__(self, g, text):
        self.text = text
        self.by_name = {t['name']: t for t in g['terms']}
        self.rx = {}
        self.cache = {}
        self.engine_differs = False
        self.ignore = list(g.get('ignore', []))

    def regex(self, key, pat):
        r = self.rx.get(key)
        if r is None:
            r = self.rx[key] = re.compile(pat_regex(pat))
        return r

    def lengths(self, key, pat, i):
        """(sorted list of all non-empty match end offsets at i, the regex engine's own match end or None)"""
        ck = (key, i)
        got = self.cache.get(ck)
        if got is None:
            r = self.regex(key, pat)
            text = self.text
            if pat['kind'] == 'str' and not pat.get('flags'):
                e = i + len(pat['value'])
                got = ([e], e) if text.startswith(pat['value'], i) and e > i else ([], None)
            else:
                ends = [e for e in range(i + 1, len(text) + 1) if r.fullmatch(text, i, e)]
                m = r.match(text, i)
                eng = m.end() if m and m.end() > i else None
                if ends and eng != ends[-1]:
                    self.engine_differs = True
                got = (ends, eng)
            self.cache[ck] = got
        return got


# ------------------------------------------------------------------------ template instantiation
def _subst(item, env):
    k = item[0]
    if k == 'p':
        return env[item[1]]
    if k in ('t', 'n', 'lit', 're'):
        return item
    if k in ('grp', 'maybe'):
        return [k, [[_subst(i, env) for i in alt] for alt in item[1]]]
    if k in ('opt', 'star', 'plus'):
        return [k, _subst(item[1], env)]
    if k == 'rep':
        return ['rep', _subst(item[1], env), item[2], item[3]]
    if k == 'tmpl':
        return ['tmpl', item[1], [_subst(a, env) for a in item[2]]]
    raise ValueError(item)


class Concrete(object):
    """grammar with templates instantiated: name -> rule dict (display name, flags, alts)"""
    def __init__(self, g):
        self.g = g
        self.templates = {r['name']: r for r in g['rules'] if r.get('params')}
        self.rules = {}
        for r in g['rules']:
            if not r.get('params'):
                self.rules[r['name']] = self._mk(r['name'], r['name'], r, {})
        # instantiate reachable template uses (worklist)
        changed = True
        while changed:
            changed = False
            for name in list(self.rules):
                for a in self.rules[name]['alts']:
                    a['items'] = [self._inst(i) for i in a['items']]
            if len(self.rules) != getattr(self, '_n', -1):
                self._n = len(self.rules); changed = True

    def _mk(self, key, display, r, env):
        mod = r.get('mod', '')
        return {'key': key, 'display': display, 'inline': display.startswith('_'), 'expand1': '?' in mod,
                'keep': '!' in mod, 'prio': r.get('prio'),
                'alts': [{'items': [_subst(i, env) for i in a['items']], 'alias': a.get('alias')} for a in r['alts']]}

    def _inst(self, item):
        k = item[0]
        if k == 'tmpl':
            args = [self._inst(a) for a in item[2]]
            key = '%s{%s}' % (item[1], ','.join(json.dumps(a, sort_keys=True) for a in args))
            if key not in self.rules:
                t = self.templates[item[1]]
                self.rules[key] = None
                self.rules[key] = self._mk(key, item[1], t, dict(zip(t['params'], args)))
            return ['n', key]
        if k in ('grp', 'maybe'):
            return [k, [[self._inst(i) for i in alt] for alt in item[1]]]
        if k in ('opt', 'star', 'plus'):
            return [k, self._inst(item[1])]
        if k == 'rep':
            return ['rep', self._inst(item[1]), item[2], item[3]]
        return item


# ------------------------------------------------------------------------ static analysis on the AST
def analyse(g):
    """returns dict: nullable rules, 'cyclic' (over-approximation of: some non-terminal derives itself),
    'recursive', 'direct_empty' (some rule has a directly empty alternative after EBNF expansion)"""
    c = Concrete(g)
    rules = c.rules
    nullable = set()
    def n_item(x):
        k = x[0]
        if k in ('t', 'lit', 're'): return False
        if k == 'n': return x[1] in nullable
        if k == 'grp': return any(n_seq(a) for a in x[1])
        if k in ('maybe', 'opt', 'star'): return True
        if k == 'plus': return n_item(x[1])
        if k == 'rep': return x[2] == 0 or n_item(x[1])
        raise ValueError(x)
    def n_seq(items): return all(n_item(i) for i in items)
    ch = True
    while ch:
        ch = False
        for name, r in rules.items():
            if name not in nullable and any(n_seq(a['items']) for a in r['alts']):
                nullable.add(name); ch = True
    cyc_flag = [False]
    def units(x):
        """non-terminals N with x =>* N (everything else empty)"""
        k = x[0]
        if k in ('t', 'lit', 're'): return set()
        if k == 'n': return {x[1]}
        if k in ('grp', 'maybe'):
            out = set()
            for a in x[1]: out |= units_seq(a)
            return out
        if k == 'opt': return units(x[1])
        if k in ('star', 'plus'):
            if n_item(x[1]): cyc_flag[0] = True     # repetition of a nullable body: infinitely many derivations
            return units(x[1])
        if k == 'rep':
            if x[3] == 0: return set()
            if x[2] <= 1 or n_item(x[1]): return units(x[1])
            return set()
        raise ValueError(x)
    def units_seq(items):
        out = set()
        for k, it in enumerate(items):
            if all(n_item(o) for q, o in enumerate(items) if q != k):
                out |= units(it)
        return out
    def walk(x):       # make sure cyc_flag sees every star/plus even in non-unit context
        k = x[0]
        if k in ('grp', 'maybe'):
            for a in x[1]:
                for i in a: walk(i)
        elif k in ('opt', 'star', 'plus', 'rep'):
            if k in ('star', 'plus') and n_item(x[1]): cyc_flag[0] = True
            walk(x[1])
    def ebnf_empty(x):
        # can x match the empty string without going through a rule? (then the enclosing alternative has a directly
        # empty expansion after EBNF expansion)
        k = x[0]
        if k in ('maybe', 'opt', 'star'): return True
        if k == 'plus': return ebnf_empty(x[1])
        if k == 'rep': return x[2] == 0 or ebnf_empty(x[1])
        if k == 'grp': return any(all(ebnf_empty(i) for i in alt) for alt in x[1])
        return False
    edges = {}
    refs = {}
    def refs_of(x, acc):
        k = x[0]
        if k == 'n': acc.add(x[1])
        elif k in ('grp', 'maybe'):
            for a in x[1]:
                for i in a: refs_of(i, acc)
        elif k in ('opt', 'star', 'plus', 'rep'): refs_of(x[1], acc)
    direct_empty = False
    for name, r in rules.items():
        e = set(); rf = set()
        for a in r['alts']:
            e |= units_seq(a['items'])
            for i in a['items']:
                walk(i); refs_of(i, rf)
            if all(ebnf_empty(i) for i in a['items']):
                direct_empty = True
        edges[name] = e; refs[name] = rf
    def reach(graph, a):
        seen = set(); stack = list(graph.get(a, ()))
        while stack:
            b = stack.pop()
            if b in seen: continue
            seen.add(b); stack += list(graph.get(b, ()))
        return seen
    cyclic = cyc_flag[0] or any(a in reach(edges, a) for a in edges)
    recursive = any(a in reach(refs, a) for a in refs)
    return {'nullable': nullable, 'cyclic': cyclic, 'recursive': recursive, 'direct_empty': direct_empty,
            'has_nullable': bool(nullable), 'concrete': c}


def colliding_alternatives(g, cap=400):
    """True if two alternatives of one rule expand to the same BNF symbol sequence (anonymous literals named after an
    equal named terminal).  lark merges such alternatives (silently for empty ones and for alternatives equal up to
    token filtering, with the documented 'Rules defined twice' GrammarError otherwise), so derivations through the
    second one do not exist for it: outside 'well-formed grammar' for set-equality oracles."""
    named = {(t['pat']['kind'], t['pat']['value'], t['pat'].get('flags', '')): t['name'] for t in g['terms']}
    class Big(Exception): pass
    def disjoint_union(sets):
        out = set()
        for s_ in sets:
            if s_ & out: raise Big()        # alternatives inside a group collide
            out |= s_
        return out
    def sig(x):
        k = x[0]
        if k in ('t', 'n', 'p'): return {(x[1],)}
        if k in ('lit', 're'):
            key = ('str' if k == 'lit' else 're', x[1], x[2] if len(x) > 2 else '')
            return {(named.get(key, 'ANON:%s:%s' % (k, x[1])),)}
        if k == 'tmpl': return {('%s{%s}' % (x[1], ','.join(sorted(map(str, sig_seq(x[2]))))),)}
        if k == 'grp': return disjoint_union([sig_seq(a) for a in x[1]]) if x[1] else {()}
        if k == 'maybe': return disjoint_union([sig_seq(a) for a in x[1]] + [{()}])
        if k == 'opt': return disjoint_union([sig(x[1]), {()}])
        if k == 'star': return {('*%s' % sorted(sig(x[1])),), ()}
        if k == 'plus': return {('*%s' % sorted(sig(x[1])),)}
        if k == 'rep':
            if x[3] >= 50: return {('~%s' % sorted(sig(x[1])), x[2], x[3])}
            base = sig(x[1]); out = set(); cur = {()}
            for c in range(0, x[3] + 1):
                if c >= x[2]:
                    if out & cur: raise Big()
                    out |= cur
                if c < x[3]:
                    new = [a + b for a in cur for b in base]
                    cur = set(new)
                    if len(cur) != len(new) or len(cur) > cap: raise Big()
            return out
        raise ValueError(x)
    def sig_seq(items):
        cur = {()}
        for i in items:
            s_ = sig(i)
            new = [a + b for a in cur for b in s_]
            cur = set(new)
            if len(cur) != len(new) or len(cur) > cap: raise Big()   # two expansions of one alternative coincide
        return cur
    try:
        for r in Concrete(g).rules.values():
            seen = set()
            for a in r['alts']:
                s_ = sig_seq(a['items'])
                if s_ & seen: return True
                seen |= s_
    except Big:
        return True
    return False


# ------------------------------------------------------------------------ reference semantics
class Ref(object):
    """mode 'exact'  : every terminal (and ignore) occurrence may use any of its match lengths
       mode 'longest': every occurrence restricted to the longest match at its position"""
    def __init__(self, g, text, mode='exact', keep_all=False, placeholders=True, term_prio=False, start='start', cap=2000,
                 concrete=None, spans=False):
        self.g = g; self.text = text; self.mode = mode; self.n = len(text)
        self.keep_all = keep_all; self.placeholders = placeholders; self.term_prio = term_prio
        self.start = start; self.cap = cap
        self.spans = spans      # nodes become ('N', name, kids, (start, end)|None): extent of all tokens the rule matched, filtered ones included
        self.c = concrete or Concrete(g)
        self.rules = self.c.rules
        self.terms = Terms(g, text)
        self.named = {(t['pat']['kind'], t['pat']['value'], t['pat'].get('flags', '')): t for t in g['terms']}
        self._after = {}
        self._tends = {}
        self.T = None
        self._ends = {}
        self._feas = {}
        self._memo = {}
        self._active = set()
        self._stars = {}

    # -- lexical level
    def _sel(self, ends_eng):
        ends, eng = ends_eng
        if not ends: return []
        return ends if self.mode == 'exact' else [ends[-1]]

    def after(self, p):
        got = self._after.get(p)
        if got is None:
            got = {p}; work = [p]
            while work:
                q = work.pop()
                for ig in self.terms.ignore:
                    t = self.terms.by_name[ig]
                    for e in self._sel(self.terms.lengths(ig, t['pat'], q)):
                        if e not in got: got.add(e); work.append(e)
            self._after[p] = got
        return got

    def tok(self, item, i):
        """[(end_of_token, name|None, prio)] for a terminal item at i"""
        k = item[0]
        if k == 't':
            t = self.terms.by_name[item[1]]
            key, pat, name, prio = item[1], t['pat'], item[1], t.get('prio') or 0
        else:
            pat = {'kind': 'str' if k == 'lit' else 're', 'value': item[1], 'flags': item[2] if len(item) > 2 else ''}
            nt = self.named.get((pat['kind'], pat['value'], pat['flags']))
            key = '\0' + pat['kind'] + pat['value'] + '\0' + pat['flags']
            name = nt['name'] if nt else None
            prio = (nt.get('prio') or 0) if nt else 0
        return [(e, name, prio) for e in self._sel(self.terms.lengths(key, pat, i))]

    # -- R1: least fix-point of ends(expr, i)
    def ends(self, x, i):
        k = x[0]
        if k in ('t', 'lit', 're'):
            out = set()
            for e, _n, _p in self.tok(x, i): out |= self.after(e)
            return out
        if k == 'n': return self.T[x[1]][i]
        if k == 'grp':
            out = set()
            for a in x[1]: out |= self.ends_seq(a, i)
            return out
        if k == 'maybe':
            out = {i}
            for a in x[1]: out |= self.ends_seq(a, i)
            return out
        if k == 'opt': return {i} | self.ends(x[1], i)
        if k in ('star', 'plus'):
            res = {i} if k == 'star' else set()
            seen = set(); frontier = {i}
            while frontier:
                nxt = set()
                for p in frontier: nxt |= self.ends(x[1], p)
                new = nxt - seen; seen |= new; res |= nxt; frontier = new
            return res
        if k == 'rep':
            cur = {i}; res = {i} if x[2] == 0 else set()
            for c in range(1, x[3] + 1):
                nxt = set()
                for p in cur: nxt |= self.ends(x[1], p)
                cur = nxt
                if c >= x[2]: res |= cur
                if not cur: break
            return res
        raise ValueError(x)

    def ends_seq(self, items, i):
        cur = {i}
        for y in items:
            nxt = set()
            for p in cur: nxt |= self.ends(y, p)
            cur = nxt
            if not cur: break
        return cur

    def solve(self):
        if self.T is not None: return
        n = self.n
        self.T = {name: [set() for _ in range(n + 1)] for name in self.rules}
        ch = True
        while ch:
            ch = False
            for name, r in self.rules.items():
                row = self.T[name]
                for i in range(n + 1):
                    for a in r['alts']:
                        e = self.ends_seq(a['items'], i)
                        if not e <= row[i]:
                            row[i] |= e; ch = True

    def accepts(self):
        self.solve()
        return any(self.n in self.T[self.start][p] for p in self.after(0))

    def reachable_end(self):
        """furthest p such that text[:p] is consumed by some partial... (not used for viability)"""
        raise NotImplementedError

    # -- R3: derivations -> shaped trees
    def _e(self, x, i):
        key = (id(x), i)
        got = self._ends.get(key)
        if got is None:
            got = self._ends[key] = self.ends(x, i)
        return got

    def feas(self, items, k, i, j):
        if k == len(items): return i == j
        key = (id(items), k, i, j)
        got = self._feas.get(key)
        if got is None:
            got = any(m <= j and self.feas(items, k + 1, m, j) for m in self._e(items[k], i))
            self._feas[key] = got
        return got

    @staticmethod
    def _merge(dst, src):
        for k, v in src.items():
            if k in dst: dst[k] = dst[k] | v
            else: dst[k] = v

    def _prod(self, heads, tails):
        out = {}
        for hk, hp in heads.items():
            for tk, tp in tails.items():
                key = hk + tk
                pr = frozenset(a + b for a in hp for b in tp)
                out[key] = out[key] | pr if key in out else pr
                if len(out) > self.cap: raise TooMany()
        return out

    def d_seq(self, items, k, i, j, keep):
        if k == len(items):
            return {(): frozenset([0])} if i == j else {}
        key = ('s', id(items), k, i, j, keep)
        got = self._memo.get(key)
        if got is not None: return got
        out = {}
        x = items[k]
        for m in sorted(self._e(x, i)):
            if m > j or not self.feas(items, k + 1, m, j): continue
            heads = self.d_item(x, i, m, keep)
            if not heads: continue
            tails = self.d_seq(items, k + 1, m, j, keep)
            if not tails: continue
            self._merge(out, self._prod(heads, tails))
            if len(out) > self.cap: raise TooMany()
        self._memo[key] = out
        return out

    def size(self, x, keep):
        """number of None placeholders item x stands for inside [..] (load_grammar.FindRuleSize as documented:
        'as many None values as its longest alternative keeps symbols')"""
        k = x[0]
        if k == 't': return 1 if (keep or not x[1].startswith('_')) else 0
        if k == 'lit': return 1 if keep else 0
        if k == 're': return 1
        if k == 'n': return 0 if self.rules[x[1]]['inline'] else 1
        if k in ('grp', 'maybe'): return max([sum(self.size(i, keep) for i in a) for a in x[1]] or [0])
        if k == 'opt': return self.size(x[1], keep)
        if k in ('star', 'plus'): return 0
        if k == 'rep': return x[3] * self.size(x[1], keep) if x[3] < 50 else 0
        raise ValueError(x)

    def d_item(self, x, i, j, keep):
        k = x[0]
        if k in ('t', 'lit', 're'):
            out = {}
            for e, name, prio in self.tok(x, i):
                if j in self.after(e):
                    if k == 't': kept = keep or not x[1].startswith('_')
                    elif k == 'lit': kept = keep
                    else: kept = True
                    ch = (('T', name, self.text[i:e], i),) if kept else ((('F', i, e),) if self.spans else ())
                    pr = frozenset([prio if self.term_prio else 0])
                    out[ch] = out[ch] | pr if ch in out else pr
            return out
        if k == 'n':
            return self.d_rule(x[1], i, j)
        key = ('i', id(x), i, j, keep)
        got = self._memo.get(key)
        if got is not None: return got
        out = {}
        if k == 'grp':
            for a in x[1]:
                if self.feas(a, 0, i, j): self._merge(out, self.d_seq(a, 0, i, j, keep))
        elif k == 'maybe':
            for a in x[1]:
                if self.feas(a, 0, i, j): self._merge(out, self.d_seq(a, 0, i, j, keep))
            if i == j:
                nn = self.size(x, keep) if self.placeholders else 0
                self._merge(out, {(None,) * nn: frozenset([0])})
        elif k == 'opt':
            if j in self._e(x[1], i): self._merge(out, self.d_item(x[1], i, j, keep))
            if i == j: self._merge(out, {(): frozenset([0])})
        elif k in ('star', 'plus'):
            out = self.d_many(x, i, j, keep, k == 'star')
        elif k == 'rep':
            out = self.d_rep(x, i, j, keep, x[2], x[3])
        else:
            raise ValueError(x)
        if len(out) > self.cap: raise TooMany()
        self._memo[key] = out
        return out

    def d_many(self, x, i, j, keep, allow_zero):
        key = ('m', id(x), i, j, keep, allow_zero)
        got = self._memo.get(key)
        if got is not None: return got
        body = x[1]
        if i in self._e(body, i):
            raise Cyclic('repetition of a nullable body')
        out = {}
        if allow_zero and i == j:
            out[()] = frozenset([0])
        for m in sorted(self._e(body, i)):
            if m > j: continue
            # the rest must be coverable by zero or more further repetitions
            if m != j and j not in self._e(self._star_of(x), m): continue
            heads = self.d_item(body, i, m, keep)
            if not heads: continue
            tails = self.d_many(x, m, j, keep, True)
            if not tails: continue
            self._merge(out, self._prod(heads, tails))
        self._memo[key] = out
        return out

    def _star_of(self, x):
        if x[0] == 'star': return x
        got = self._stars.get(id(x))
        if got is None:
            got = self._stars[id(x)] = ['star', x[1]]
        return got

    def d_rep(self, x, i, j, keep, lo, hi):
        key = ('r', id(x), i, j, keep, lo, hi)
        got = self._memo.get(key)
        if got is not None: return got
        body = x[1]
        out = {}
        if lo <= 0 and i == j:
            out[()] = frozenset([0])
        if hi > 0:
            rest_key = (id(x), max(0, lo - 1), hi - 1)
            rest = self._stars.get(rest_key)
            if rest is None:
                rest = self._stars[rest_key] = ['rep', body, max(0, lo - 1), hi - 1]
            for m in sorted(self._e(body, i)):
                if m > j or j not in self._e(rest, m): continue      # only recurse into spans whose tail is feasible
                heads = self.d_item(body, i, m, keep)
                if not heads: continue
                tails = self.d_rep(x, m, j, keep, max(0, lo - 1), hi - 1)
                if not tails: continue
                self._merge(out, self._prod(heads, tails))
        self._memo[key] = out
        return out

    def d_rule(self, name, i, j):
        key = ('R', name, i, j)
        got = self._memo.get(key)
        if got is not None: return got
        if key in self._active:
            raise Cyclic(name)
        self._active.add(key)
        try:
            r = self.rules[name]
            keep = r['keep'] or self.keep_all
            out = {}
            rp = r['prio'] or 0
            for a in r['alts']:
                if not self.feas(a['items'], 0, i, j): continue
                for kids, prios in self.d_seq(a['items'], 0, i, j, keep).items():
                    prios = frozenset(p + rp for p in prios)
                    real = tuple(k for k in kids if k is None or k[0] != 'F') if self.spans else kids
                    if r['inline']:
                        ch = kids
                    elif r['expand1'] and not a.get('alias') and len(real) == 1:
                        ch = kids       # in spans mode the filtered siblings stay visible to the parent's extent
                    elif self.spans:
                        ch = (('N', a.get('alias') or r['display'], real, _extent(kids)),)
                    else:
                        ch = (('N', a.get('alias') or r['display'], kids),)
                    out[ch] = out[ch] | prios if ch in out else prios
                    if len(out) > self.cap: raise TooMany()
        finally:
            self._active.discard(key)
        self._memo[key] = out
        return out

    def trees(self):
        """dict: shaped result (a tree tuple, or a token/None if the start rule collapsed) -> frozenset of total priorities"""
        self.solve()
        out = {}
        for p in sorted(self.after(0)):
            if self.n in self.T[self.start][p]:
                for ch, pr in self.d_rule(self.start, p, self.n).items():
                    if self.spans: ch = tuple(k for k in ch if k is None or k[0] != 'F')
                    key = ch[0] if len(ch) == 1 else ('SPLICE', ch)
                    out[key] = out[key] | pr if key in out else pr
        return out


    # -- number of derivations (not of shaped trees: `start: A+ | A` has two derivations of "a" with one shaped tree)
    def count(self, cap=100000):
        self.solve()
        memo = {}; active = set()
        def c_seq(items, k, i, j):
            if k == len(items): return 1 if i == j else 0
            key = ('s', id(items), k, i, j)
            if key in memo: return memo[key]
            tot = 0
            for m in self._e(items[k], i):
                if m > j or not self.feas(items, k + 1, m, j): continue
                h = c_item(items[k], i, m)
                if h: tot += h * c_seq(items, k + 1, m, j)
            if tot > cap: raise TooMany()
            memo[key] = tot
            return tot
        def c_item(x, i, j):
            k = x[0]
            if k in ('t', 'lit', 're'):
                return sum(1 for e, _n, _p in self.tok(x, i) if j in self.after(e))
            if k == 'n':
                key = ('R', x[1], i, j)
                if key in memo: return memo[key]
                if key in active: raise Cyclic(x[1])
                active.add(key)
                try:
                    tot = sum(c_seq(a['items'], 0, i, j) for a in self.rules[x[1]]['alts'] if self.feas(a['items'], 0, i, j))
                finally:
                    active.discard(key)
                memo[key] = tot
                return tot
            key = ('i', id(x), i, j)
            if key in memo: return memo[key]
            if k == 'grp': tot = sum(c_seq(a, 0, i, j) for a in x[1] if self.feas(a, 0, i, j))
            elif k == 'maybe': tot = sum(c_seq(a, 0, i, j) for a in x[1] if self.feas(a, 0, i, j)) + (1 if i == j else 0)
            elif k == 'opt': tot = (c_item(x[1], i, j) if j in self._e(x[1], i) else 0) + (1 if i == j else 0)
            elif k in ('star', 'plus'):
                if i in self._e(x[1], i): raise Cyclic('repetition of a nullable body')
                star = self._star_of(x)
                def many(p, allow_zero):
                    kk = ('m', id(x), p, j, allow_zero)
                    if kk in memo: return memo[kk]
                    t_ = 1 if (allow_zero and p == j) else 0
                    for m in self._e(x[1], p):
                        if m > j or (m != j and j not in self._e(star, m)): continue
                        h = c_item(x[1], p, m)
                        if h: t_ += h * many(m, True)
                    memo[kk] = t_
                    return t_
                tot = many(i, k == 'star')
            elif k == 'rep':
                def rep(p, lo, hi):
                    kk = ('r', id(x), p, j, lo, hi)
                    if kk in memo: return memo[kk]
                    t_ = 1 if (lo <= 0 and p == j) else 0
                    if hi > 0:
                        for m in self._e(x[1], p):
                            if m > j: continue
                            h = c_item(x[1], p, m)
                            if h: t_ += h * rep(m, max(0, lo - 1), hi - 1)
                    memo[kk] = t_
                    return t_
                tot = rep(i, x[2], x[3])
            else:
                raise ValueError(x)
            if tot > cap: raise TooMany()
            memo[key] = tot
            return tot
        return sum(c_item(['n', self.start], p, self.n) for p in sorted(self.after(0)) if self.n in self.T[self.start][p])

    # -- validation of one given shaped tree (complete for cyclic grammars too: a shortest derivation never repeats
    #    a state (rule, position, child index) on its own path, so cutting on re-entry loses nothing; results are
    #    memoised only when no cut happened underneath)
    def validate(self, tree, budget=200000):
        self.solve()
        self._vmemo = {}; self._vactive = set(); self._vused = set(); self._vapprox = {}; self._vbudget = budget
        kids = (tree,)
        for p in sorted(self.after(0)):
            if (self.n, 1) in self.v_item(['n', self.start], p, kids, 0, False):
                return True
        return False

    def v_items(self, items, k, i, kids, a, keep):
        if k == len(items):
            return {(i, a)}
        out = set()
        for m, b in self.v_item(items[k], i, kids, a, keep):
            out |= self.v_items(items, k + 1, m, kids, b, keep)
        return out

    def v_item(self, x, i, kids, a, keep):
        self._vbudget -= 1
        if self._vbudget < 0:
            raise TooMany('validation budget')
        k = x[0]
        if k in ('t', 'lit', 're'):
            out = set()
            for e, name, prio in self.tok(x, i):
                if k == 't': kept = keep or not x[1].startswith('_')
                elif k == 'lit': kept = keep
                else: kept = True
                if kept:
                    if a < len(kids) and kids[a] == ('T', name, self.text[i:e], i):
                        out |= {(j, a + 1) for j in self.after(e)}
                else:
                    out |= {(j, a) for j in self.after(e)}
            return out
        if k == 'n':
            # (rule, position, child index) may legitimately be re-entered by left recursion (the inner occurrence
            # ends earlier) and by derivation cycles: the result set is grown to its least fix-point ("seed growing");
            # a result is memoised only if it did not use the approximation of another call still in progress
            key = (x[1], i, id(kids), a)
            got = self._vmemo.get(key)
            if got is not None: return got
            if key in self._vactive:
                self._vused.add(key)
                return self._vapprox[key]
            self._vactive.add(key)
            self._vapprox[key] = set()
            before = frozenset(self._vused)
            try:
                r = self.rules[x[1]]
                kp = r['keep'] or self.keep_all
                while True:
                    out = set()
                    for alt in r['alts']:
                        if r['inline']:
                            out |= self.v_items(alt['items'], 0, i, kids, a, kp)
                            continue
                        collapsible = r['expand1'] and not alt.get('alias')
                        if collapsible:
                            out |= {(j, b) for j, b in self.v_items(alt['items'], 0, i, kids, a, kp) if b == a + 1}
                        if a < len(kids) and kids[a] is not None and kids[a][0] == 'N' and kids[a][1] == (alt.get('alias') or r['display']):
                            sub = kids[a][2]
                            if not (collapsible and len(sub) == 1):
                                out |= {(j, a + 1) for j, b in self.v_items(alt['items'], 0, i, sub, 0, kp) if b == len(sub)}
                    if out == self._vapprox[key] or key not in self._vused:
                        break
                    self._vapprox[key] = out
            finally:
                self._vactive.discard(key)
                del self._vapprox[key]
            mine = self._vused - before
            mine.discard(key)
            self._vused = set(before) | mine
            if not mine:
                self._vmemo[key] = out
            return out
        if k == 'grp':
            out = set()
            for alt in x[1]: out |= self.v_items(alt, 0, i, kids, a, keep)
            return out
        if k == 'maybe':
            out = set()
            for alt in x[1]: out |= self.v_items(alt, 0, i, kids, a, keep)
            nn = self.size(x, keep) if self.placeholders else 0
            if all(c is None for c in kids[a:a + nn]) and a + nn <= len(kids):
                out.add((i, a + nn))
            return out
        if k == 'opt':
            return {(i, a)} | self.v_item(x[1], i, kids, a, keep)
        if k in ('star', 'plus'):
            res = {(i, a)} if k == 'star' else set()
            seen = set(); frontier = {(i, a)}
            while frontier:
                nxt = set()
                for p, b in frontier: nxt |= self.v_item(x[1], p, kids, b, keep)
                new = nxt - seen; seen |= new; res |= nxt; frontier = new
            return res
        if k == 'rep':
            cur = {(i, a)}; res = {(i, a)} if x[2] == 0 else set()
            for c in range(1, x[3] + 1):
                nxt = set()
                for p, b in cur: nxt |= self.v_item(x[1], p, kids, b, keep)
                cur = nxt
                if c >= x[2]: res |= cur
                if not cur: break
            return res
        raise ValueError(x)


def _extent(kids):
    lo = hi = None
    for k in kids:
        if k is None: continue
        if k[0] == 'T': a, b = k[3], k[3] + len(k[2])
        elif k[0] == 'F': a, b = k[1], k[2]
        elif k[0] == 'N':
            if k[3] is None: continue
            a, b = k[3]
        else: continue
        if lo is None or a < lo: lo = a
        if hi is None or b > hi: hi = b
    return None if lo is None else (lo, hi)


# ------------------------------------------------------------------------ normalising lark results
_IN_PROGRESS = object()


def norm_tree(t, named=None, pos=True, _memo=None):
    """lark Tree/Token/None -> shaped tuple.  named: set of named terminal names (others compare by value only).
    Shared sub-trees (explicit-ambiguity results are DAGs) are normalised once and stay shared."""
    if t is None: return None
    if _memo is None: _memo = {}
    if hasattr(t, 'children') and hasattr(t, 'data'):
        got = _memo.get(id(t))
        if got is _IN_PROGRESS:
            from .harness import Violation
            raise Violation('parse() returned a tree that contains itself', node=str(t.data))
        if got is None:
            _memo[id(t)] = _IN_PROGRESS
            got = _memo[id(t)] = ('N', str(t.data), tuple(norm_tree(c, named, pos, _memo) for c in t.children))
        return got
    if hasattr(t, 'type'):
        ty = t.type
        if named is not None and ty not in named: ty = None
        v = t.value
        return ('T', ty, v, t.start_pos if pos else None)
    return ('V', repr(t))


def strip_pos(t):
    """trees compared the way lark compares them: tokens by type and value, not by position"""
    if t is None: return None
    if t[0] == 'T': return ('T', t[1], t[2], None)
    if t[0] == 'N': return ('N', t[1], tuple(strip_pos(c) for c in t[2]))
    if t[0] == 'SPLICE': return ('SPLICE', tuple(strip_pos(c) for c in t[1]))
    return t


def expand_ambig(t):
    """all trees denoted by a normalised tree containing ('N','_ambig',...) nodes"""
    if t is None or t[0] != 'N':
        return [t]
    if t[1] == '_ambig':
        out = []
        for c in t[2]: out += expand_ambig(c)
        return out
    lists = [expand_ambig(c) for c in t[2]]
    return [('N', t[1], tuple(k)) for k in itertools.product(*lists)]


def show(t, depth=0):
    if t is None: return 'None'
    if t[0] == 'T': return '%s:%r@%s' % (t[1], t[2], t[3]) if len(t) > 3 else '%s#%s' % (t[1], t[2])
    if t[0] == 'N': return '%s(%s)' % (t[1], ', '.join(show(c) for c in t[2]))
    return repr(t)
