"""R2: textbook Earley recogniser (predictor / scanner / completer to a fix-point per set; no Leo items, no SPPF,
no held completions) over a lattice of terminal edges, on BNF rules (objects with .origin.name, .expansion[i].name,
.expansion[i].is_term).  Gives membership, the set of viable boundaries and the exact next-terminal sets.
Ignored terminals are lattice edges that carry the terminal-expecting items (and a completed start symbol) along."""
import collections, re


class RefEarley(object):
    def __init__(self, lrules, start, npos, edges, ignore_edges=None):
        self.R = list(lrules); self.start = start; self.n = npos
        self.edges = edges                      # p -> [(j, terminal name)]
        self.ign = ignore_edges or {}           # p -> [j]
        self.by = collections.defaultdict(list)
        for idx, r in enumerate(self.R): self.by[r.origin.name].append(idx)
        self.S = [set() for _ in range(npos + 1)]
        self._run()

    def _close(self, k):
        S = self.S; R = self.R
        work = list(S[k])
        while work:
            ri, dot, o = work.pop()
            exp = R[ri].expansion
            if dot < len(exp):
                sy = exp[dot]
                if not sy.is_term:
                    for rj in self.by[sy.name]:
                        it = (rj, 0, k)
                        if it not in S[k]: S[k].add(it); work.append(it)
                    # nullable completion: if sy was already completed over (k, k) the completer below handles it when
                    # it is (re)processed; to stay textbook-simple re-scan completed empties
                    for (rj, d2, o2) in list(S[k]):
                        if o2 == k and d2 == len(R[rj].expansion) and R[rj].origin.name == sy.name:
                            it = (ri, dot + 1, o)
                            if it not in S[k]: S[k].add(it); work.append(it)
            else:
                A = R[ri].origin.name
                for (rj, d2, o2) in list(S[o]):
                    e2 = R[rj].expansion
                    if d2 < len(e2) and (not e2[d2].is_term) and e2[d2].name == A:
                        it = (rj, d2 + 1, o2)
                        if it not in S[k]: S[k].add(it); work.append(it)

    def _run(self):
        S = self.S; R = self.R
        for ri in self.by[self.start]: S[0].add((ri, 0, 0))
        for k in range(self.n + 1):
            if not S[k]: continue
            self._close(k)
            for (ri, dot, o) in S[k]:
                e = R[ri].expansion
                if dot < len(e) and e[dot].is_term:
                    for j, name in self.edges.get(k, ()):
                        if name == e[dot].name: S[j].add((ri, dot + 1, o))
            for j in self.ign.get(k, ()):
                for (ri, dot, o) in S[k]:
                    e = R[ri].expansion
                    if (dot < len(e) and e[dot].is_term) or (dot == len(e) and R[ri].origin.name == self.start):
                        S[j].add((ri, dot, o))

    def viable(self, k):
        return bool(self.S[k])

    def expected(self, k):
        R = self.R
        return {R[ri].expansion[dot].name for (ri, dot, o) in self.S[k] if dot < len(R[ri].expansion) and R[ri].expansion[dot].is_term}

    def accepted(self):
        R = self.R
        return any(R[ri].origin.name == self.start and dot == len(R[ri].expansion) and o == 0 for (ri, dot, o) in self.S[self.n])

    def furthest(self):
        return max(k for k in range(self.n + 1) if self.S[k])


def token_lattice(types):
    return {k: [(k + 1, t)] for k, t in enumerate(types)}


def char_lattice(terminals, ignore_names, text, all_lengths):
    """terminals: lark TerminalDef list.  all_lengths False: the regex engine's match only (dynamic);
    True: every match length (dynamic_complete)."""
    edges = collections.defaultdict(list); ign = collections.defaultdict(list)
    n = len(text)
    for t in terminals:
        rx = re.compile(t.pattern.to_regexp())
        for p in range(n):
            if all_lengths:
                ends = [e for e in range(p + 1, n + 1) if rx.fullmatch(text, p, e)]
            else:
                m = rx.match(text, p)
                ends = [m.end()] if m and m.end() > p else []
            for e in ends:
                if t.name in ignore_names:
                    ign[p].append(e)
                edges[p].append((e, t.name))
    return dict(edges), dict(ign)
