"""R4: reference LALR(1) by definition -- canonical LR(1) item sets merged by core.
Shares no algorithm with lark's DeRemer-Pennello implementation (reads/includes/lookback).

Input: BNF rules as (lhs, rhs tuple of names, priority) + the set of non-terminal names (lark's own
compiled Lark.rules are passed in: the property is about the analysis, not about EBNF expansion)."""
import collections

END = '$END'


def from_lark(lrules):
    rules = []
    for r in lrules:
        rules.append((r.origin.name, tuple(s.name for s in r.expansion), r.options.priority if r.options else None, r))
    return rules


class RefLALR(object):
    def __init__(self, rules, starts):
        """rules: list of (lhs, rhs, prio, tag)"""
        self.user_rules = rules
        self.nts = {r[0] for r in rules}
        self.R = []
        self.roots = {}
        for s in starts:
            root = '$root_' + s
            self.roots[s] = len(self.R)
            self.R.append((root, (s,), None, None))
            self.nts.add(root)
        self.nroots = len(self.R)
        self.R += list(rules)
        self.by = collections.defaultdict(list)
        for i, r in enumerate(self.R):
            self.by[r[0]].append(i)
        self._first()
        self._build()

    def productive(self):
        prod = set(); ch = True
        while ch:
            ch = False
            for l, rhs, _p, _t in self.R:
                if l not in prod and all((s in prod) or (s not in self.nts) for s in rhs):
                    prod.add(l); ch = True
        return prod == self.nts

    def _first(self):
        nts = self.nts
        self.nullable = set(); self.first = {n: set() for n in nts}
        ch = True
        while ch:
            ch = False
            for l, rhs, _p, _t in self.R:
                if l not in self.nullable and all(s in self.nullable for s in rhs):
                    self.nullable.add(l); ch = True
                for s in rhs:
                    f = self.first[s] if s in nts else {s}
                    if not f <= self.first[l]:
                        self.first[l] |= f; ch = True
                    if s not in self.nullable: break

    def first_seq(self, seq, la):
        out = set()
        for s in seq:
            out |= (self.first[s] if s in self.nts else {s})
            if s not in self.nullable: return out
        return out | {la}

    def closure(self, items):
        items = set(items); work = list(items)
        R = self.R
        while work:
            ri, dot, la = work.pop()
            rhs = R[ri][1]
            if dot < len(rhs) and rhs[dot] in self.nts:
                for la2 in self.first_seq(rhs[dot + 1:], la):
                    for rj in self.by.get(rhs[dot], ()):
                        it = (rj, 0, la2)
                        if it not in items:
                            items.add(it); work.append(it)
        return frozenset(items)

    def _build(self):
        R = self.R
        core = lambda s: frozenset((ri, dot) for ri, dot, la in s)
        states = set(); work = []
        self.start_core = {}
        for s, ri in self.roots.items():
            s0 = self.closure({(ri, 0, END)})
            self.start_core[s] = core(s0)
            if s0 not in states:
                states.add(s0); work.append(s0)
        trans = {}
        while work:
            s = work.pop()
            d = collections.defaultdict(set)
            for ri, dot, la in s:
                rhs = R[ri][1]
                if dot < len(rhs): d[rhs[dot]].add((ri, dot + 1, la))
            for sym, k in d.items():
                t = self.closure(k); trans[(s, sym)] = t
                if t not in states:
                    states.add(t); work.append(t)
        self.n_lr1_states = len(states)
        merged = collections.defaultdict(lambda: collections.defaultdict(set))
        for s in states:
            c = core(s)
            for ri, dot, la in s:
                merged[c][(ri, dot)].add(la)
        mtrans = collections.defaultdict(dict)
        for (s, sym), t in trans.items():
            mtrans[core(s)][sym] = core(t)
        self.cores = merged
        self.table = {}
        self.rr = []          # (core, la, rules) with no strict priority winner
        self.sr = []          # (core, la, rule)
        self.rr_resolved = [] # (core, la, rules) reduce/reduce conflicts that a strict priority winner resolved
        self.lookaheads = {}  # core -> {rule index: set(la)}
        for c, items in merged.items():
            row = {}
            for sym, t in mtrans.get(c, {}).items():
                row[sym] = ('S', t)
            red = collections.defaultdict(set)
            las = {}
            for (ri, dot), la_set in items.items():
                if dot == len(R[ri][1]) and ri >= self.nroots:
                    las[ri] = set(la_set)
                    for la in la_set: red[la].add(ri)
            self.lookaheads[c] = las
            for la, rs in red.items():
                if len(rs) > 1:
                    p = sorted(((R[ri][2] or 0), ri) for ri in rs)
                    if p[-1][0] > p[-2][0]:
                        self.rr_resolved.append((c, la, sorted(rs)))
                        rs = {p[-1][1]}
                    else:
                        self.rr.append((c, la, sorted(rs))); continue
                ri, = rs
                if la in row:
                    self.sr.append((c, la, ri))
                else:
                    row[la] = ('R', ri)
            self.table[c] = row

    # ------------------------------------------------------------------ LR driver
    def run(self, toks, start):
        """Emulates an LR driver on the reference table (conflicts resolved as shift, like the property says).
        returns (accepted, tops, reds, err_index): tops[k] = state on top of the stack after k tokens were shifted
        (tops[0] = start state); err_index = index of the token (len(toks) for $END) that has no action."""
        s0 = self.start_core[start]
        end_state = self.table[s0][start][1]
        stack = [s0]
        tops = [s0]
        reds = []
        seq = list(toks) + [END]
        for k, tok in enumerate(seq):
            is_end = (k == len(toks))
            nred = 0
            while True:
                nred += 1
                if nred > 4000:
                    # endless reduce loop: only possible for derivation-cyclic grammars whose reduce/reduce conflict was
                    # "resolved" by priority (or hidden by a shift)
                    return 'loop', tops, reds, k
                act = self.table[stack[-1]].get(tok)
                if act is None:
                    return False, tops, reds, k
                if act[0] == 'S':
                    if is_end:
                        return True, tops, reds, None
                    stack.append(act[1]); tops.append(act[1]); break
                ri = act[1]
                l, rhs, _p, _t = self.R[ri]
                if rhs: del stack[-len(rhs):]
                reds.append(ri)
                stack.append(self.table[stack[-1]][l][1])
                if is_end and stack[-1] == end_state:
                    return True, tops, reds, None
        raise AssertionError('unreachable')

    def row_terminals(self, c):
        return {k for k in self.table[c] if k not in self.nts}


def conflict_free(lrules, starts):
    r = RefLALR(from_lark(lrules), starts)
    return not r.rr and not r.sr and not r.rr_resolved
