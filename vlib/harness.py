"""Shared harness: seeding, 16-way sharding, hang watchdog, classification counters,
known-finding matching, evidence writing, replay I/O and exit codes.

A check module (checks/cNN_*.py) provides

    ID, LEVEL, RULE, ASSUMPTIONS, HANG_IS_VIOLATION (optional)
    phases(tier) -> [Phase, ...]
    check(case, ctx)            # raises Violation; any other exception is a harness error
    KNOWN = {finding_id: predicate(case, violation) -> bool}   (optional)

Cases are plain JSON values so that a failure replays without Hypothesis.
"""
import os, sys, json, hashlib, time, traceback, collections, multiprocessing, glob

VERIF = os.path.dirname(os.path.dirname(os.path.abspath(__file__)))
REPO = os.environ.get('LARK_REPO', '/repo')
NPROC = int(os.environ.get('VERIF_NPROC', '16'))
CASE_LIMIT_S = float(os.environ.get('VERIF_CASE_LIMIT', '30'))
SHRINK_BUDGET_S = float(os.environ.get('VERIF_SHRINK_BUDGET', '45'))


class Violation(Exception):
    def __init__(self, what, **detail):
        Exception.__init__(self, what)
        self.what = what
        self.detail = detail


def blame_lark(fn):
    """decorator for check functions that drive lark through many API calls: an exception other than the ones the
    check handles is a violation if it was raised inside lark's own code (innermost frame under the tree under
    test), and a harness error otherwise"""
    import functools
    @functools.wraps(fn)
    def wrapper(case, ctx):
        try:
            return fn(case, ctx)
        except Violation:
            raise
        except Exception as e:
            tb = e.__traceback__
            last = None
            while tb is not None:
                last = tb; tb = tb.tb_next
            fname = last.tb_frame.f_code.co_filename if last is not None else ''
            if os.path.abspath(fname).startswith(os.path.abspath(REPO) + os.sep):
                raise Violation('lark raised %s (not a documented error) during the history' % type(e).__name__, error=str(e)[:300],
                                where='%s:%d' % (os.path.relpath(fname, REPO), last.tb_lineno))
            raise
    return wrapper


class Phase(object):
    """kind='hypothesis': strategy + max_examples (total, split over shards)
       kind='enumerate' : cases(shard, nshards) -> iterable of cases"""
    def __init__(self, name, kind, strategy=None, max_examples=0, cases=None, exhaustive=False, check=None, case_limit=None):
        self.name = name; self.kind = kind; self.strategy = strategy
        self.max_examples = max_examples; self.cases = cases; self.exhaustive = exhaustive
        self.check = check
        self.case_limit = case_limit      # seconds allowed for one case of this phase (default CASE_LIMIT_S)


def jdump(x):
    return json.dumps(x, sort_keys=True, default=repr)


def case_hash(x):
    return hashlib.sha1(jdump(x).encode('utf8', 'replace')).hexdigest()[:16]


def derive_seed(*parts):
    h = hashlib.sha256(jdump(parts).encode()).hexdigest()
    return int(h[:15], 16)


class Ctx(object):
    def __init__(self, module, tier, seed, findings):
        self.module = module; self.tier = tier; self.seed = seed
        self.findings = findings            # open findings of this property: id -> entry
        self.labels = collections.Counter()
        self.excluded = collections.Counter()
        self.discarded = collections.Counter()
        self.nontriv = set()
        self.samples = []
        self.evaluations = 0
        self.violations = []                # (case, what, detail)
        self.harness_errors = []
        self.inconclusive = []
        self.first_failure_time = None
        self.failing = {}                   # case hash -> Violation (for shrink budget)
        self.aborted = False
        self.last_failure = None
        self._cur_nontrivial = False

    # --- classification -------------------------------------------------------------
    def label(self, *names):
        for n in names:
            self.labels[n] += 1

    def discard(self, why):
        self.discarded[why] += 1

    def nontrivial(self, key, sample=None):
        h = case_hash(key)
        if h not in self.nontriv:
            self.nontriv.add(h)
            if sample is not None and len(self.samples) < 4:
                self.samples.append(sample)
        self._cur_nontrivial = True

    def is_open(self, finding_id):
        return finding_id in self.findings

    def exclude(self, finding_id):
        """count a case (or sub-case) excluded because of a listed open finding"""
        self.excluded[finding_id] += 1


def load_findings(prop):
    path = os.path.join(VERIF, 'known_findings.json')
    if not os.path.exists(path):
        return {}
    with open(path) as f:
        data = json.load(f)
    out = {}
    for e in data.get('findings', []):
        if e.get('property') == prop and e.get('status') == 'open':
            out[e['id']] = e
    return out


_armed = [False]


# ---------------------------------------------------------------------------------------------------
# Hang handling without asynchronous exceptions: every shard runs in its own process with a watchdog
# *thread*; when one case exceeds the limit the thread reports the case to the parent and the process
# exits.  The parent re-runs that case alone in a fresh process with three times the limit; only if it
# does not finish there either is it a hang (a violation for properties that promise termination,
# otherwise the run is inconclusive).
_current = {'case': None, 't0': None, 'fn': None}


def run_case(case, ctx, fn=None, in_hypothesis=False):
    """Evaluate one case.  Returns normally if the property held (or the failure matches an
    open known finding); raises Violation otherwise.  Harness errors abort the shard."""
    module = ctx.module
    fn = fn or module.check
    if ctx.aborted:
        return
    h = None
    if in_hypothesis and ctx.first_failure_time is not None:
        h = case_hash(case)
        if h in ctx.failing:
            raise ctx.failing[h]
        if time.time() - ctx.first_failure_time > SHRINK_BUDGET_S:
            return          # shrink budget used up: let the shrinker converge on what it has
    ctx.evaluations += 1
    _current['case'] = case; _current['fn'] = getattr(fn, '__name__', 'check'); _current['t0'] = time.time()
    try:
        fn(case, ctx)
    except Violation as v:
        known = getattr(module, 'KNOWN', {})
        for fid in ctx.findings:
            pred = known.get(fid)
            try:
                hit = pred is not None and pred(case, v)
            except Exception:
                hit = False
            if hit:
                ctx.excluded[fid] += 1
                return
        if ctx.first_failure_time is None:
            ctx.first_failure_time = time.time()
        ctx.failing[h or case_hash(case)] = v
        ctx.last_failure = (case, v)
        raise
    except Exception:
        ctx.harness_errors.append({'case': case, 'traceback': traceback.format_exc()})
        ctx.aborted = True
        return
    finally:
        _current['t0'] = None


def _watchdog(conn, limit):
    import threading
    def loop():
        while True:
            time.sleep(0.25)
            t0 = _current['t0']
            if t0 is not None and time.time() - t0 > (_current.get('limit') or limit):
                try:
                    conn.send({'hang': _current['case'], 'fn': _current['fn'], 'limit': _current.get('limit') or limit})
                except Exception:
                    pass
                os._exit(3)
    th = threading.Thread(target=loop, daemon=True)
    th.start()


def _shard_main(conn, args):
    try:
        _watchdog(conn, CASE_LIMIT_S)
        res = _run_shard_inner(*args)
    except BaseException:
        res = {'fatal': traceback.format_exc(), 'shard': args[4]}
    try:
        conn.send(res)
    except Exception:
        pass
    conn.close()
    os._exit(0)


def _confirm_main(conn, modname, fnname, case):
    import importlib
    module = importlib.import_module(modname)
    ctx = Ctx(module, 'quick', 0, {})
    try:
        getattr(module, fnname)(case, ctx)
        conn.send('finished')
    except Violation as v:
        conn.send('finished')
    except BaseException:
        conn.send('error: ' + traceback.format_exc()[-800:])
    os._exit(0)


def confirm_hang(modname, fnname, case, limit):
    """re-run one case alone in a fresh process; True if it still does not finish within limit"""
    mp = multiprocessing.get_context('fork')
    a, b = mp.Pipe(duplex=False)
    p = mp.Process(target=_confirm_main, args=(b, modname, fnname, case))
    p.start()
    ok = a.poll(limit)
    if not ok:
        p.kill(); p.join()
        return True
    p.join(5)
    if p.is_alive(): p.kill()
    return False


def run_shards(jobs):
    """jobs: list of arg tuples for _run_shard_inner.  Returns list of results (dicts)."""
    mp = multiprocessing.get_context('fork')
    from multiprocessing.connection import wait
    pending = list(jobs); running = {}; results = []
    while pending or running:
        while pending and len(running) < NPROC:
            args = pending.pop(0)
            a, b = mp.Pipe(duplex=False)
            pr = mp.Process(target=_shard_main, args=(b, args))
            pr.start(); b.close()
            running[a] = (pr, args)
        for conn in wait(list(running), timeout=1.0):
            pr, args = running.pop(conn)
            try:
                msg = conn.recv()
            except (EOFError, OSError):
                msg = {'fatal': 'shard process %s exited without a result (killed / out of memory?)' % (args[4],), 'shard': args[4]}
            conn.close()
            pr.join(10)
            if pr.is_alive(): pr.kill()
            results.append(msg)
    return results


def _run_shard_inner(modname, tier, seed, phase_index, shard, nshards, scale=1.0):
    import importlib
    module = importlib.import_module(modname)
    findings = load_findings(module.ID)
    known_lines = []
    t0 = time.time()
    if phase_index == -1:
        # regression tier: probes of open known findings, then the saved replays
        ctx = Ctx(module, tier, seed, findings)
        ctx0 = Ctx(module, tier, seed, {})
        for fid, e in sorted(findings.items()):
            probe = e.get('probe')
            if probe is None:
                continue
            fn = getattr(module, e.get('probe_check', 'check'))
            try:
                run_case(probe, ctx0, fn)
                known_lines.append('note: probe of open finding %s no longer fails' % fid)
            except Violation as v:
                pred = getattr(module, 'KNOWN', {}).get(fid)
                if pred is not None and pred(probe, v):
                    known_lines.append('KNOWN-FINDING: property=%s %s [%s]' % (module.ID, e['what'], fid))
                else:
                    ctx.violations.append({'case': probe, 'what': 'probe of %s fails differently: %s' % (fid, v.what), 'detail': v.detail})
        ctx.harness_errors += ctx0.harness_errors
        nrep = 0
        for path in sorted(glob.glob(os.path.join(VERIF, 'replays', module.ID, '*.json'))):
            with open(path) as f:
                rec = json.load(f)
            fn = getattr(module, rec.get('phase_check') or 'check')
            nrep += 1
            try:
                run_case(rec['case'], ctx, fn)
            except Violation as v:
                ctx.violations.append({'case': rec['case'], 'what': v.what, 'detail': v.detail, 'replay_of': path})
        phase_name = 'regression'
        extra = {'replays': nrep}
    else:
        ctx = Ctx(module, tier, seed, findings)
        phase = module.phases(tier)[phase_index]
        _current['limit'] = phase.case_limit
        phase_name = phase.name; extra = {}
        fn = phase.check or module.check
        if phase.kind == 'enumerate':
            stride = max(1, int(round(1.0 / scale))) if scale < 1 else 1
            for ci, case in enumerate(phase.cases(shard, nshards)):
                if ci % stride: continue
                try:
                    run_case(case, ctx, fn)
                except Violation as v:
                    ctx.violations.append({'case': case, 'what': v.what, 'detail': v.detail, 'phase_check': fn.__name__})
                    if len(ctx.violations) >= 3:
                        break
                if ctx.aborted:
                    break
        else:
            import hypothesis
            from hypothesis import given, settings, HealthCheck, seed as hseed
            n = max(1, int(phase.max_examples * scale) // nshards)
            @hseed(derive_seed(seed, module.ID, phase.name, shard))
            @settings(max_examples=n, database=None, deadline=None, derandomize=False,
                      report_multiple_bugs=False, suppress_health_check=list(HealthCheck),
                      print_blob=False)
            @given(phase.strategy)
            def prop(case):
                run_case(case, ctx, fn, in_hypothesis=True)
            try:
                prop()
            except Violation:
                case, v = ctx.last_failure
                ctx.violations.append({'case': case, 'what': v.what, 'detail': v.detail, 'phase_check': fn.__name__})
            except Exception as e:
                # Hypothesis-internal complaint (flaky, unsatisfiable ...): harness problem, not a violation
                if getattr(ctx, 'last_failure', None) is not None and type(e).__name__ in ('Flaky', 'FlakyFailure'):
                    case, v = ctx.last_failure
                    ctx.violations.append({'case': case, 'what': v.what + ' [flaky under shrinking]', 'detail': v.detail})
                else:
                    ctx.harness_errors.append({'case': None, 'traceback': traceback.format_exc()})
    out = {
        'shard': shard, 'phase': phase_name, 'evaluations': ctx.evaluations,
        'labels': dict(ctx.labels), 'excluded': dict(ctx.excluded), 'discarded': dict(ctx.discarded),
        'nontriv': sorted(ctx.nontriv), 'samples': ctx.samples, 'violations': ctx.violations,
        'harness_errors': ctx.harness_errors[:3], 'inconclusive': ctx.inconclusive[:3],
        'wall_s': time.time() - t0, 'known_lines': known_lines,
    }
    out.update(extra)
    return out


def write_replay(prop, case, what, detail, subdir='out', phase_check=None):
    d = os.path.join(VERIF, subdir, prop)
    os.makedirs(d, exist_ok=True)
    path = os.path.join(d, 'violation-%s.json' % case_hash(case))
    with open(path, 'w') as f:
        json.dump({'property': prop, 'what': what, 'detail': detail, 'case': case, 'phase_check': phase_check}, f, indent=1, sort_keys=True, default=repr)
    return path


def validate_evidence(ev):
    schema_path = '/root/.vp/EVIDENCE.schema.json'
    try:
        sys.path.insert(0, os.path.join(VERIF, '.deps'))
        import jsonschema
        if os.path.exists(schema_path):
            with open(schema_path) as f:
                jsonschema.validate(ev, json.load(f))
            return 'jsonschema'
    except ImportError:
        pass
    cov = ev['coverage']
    assert isinstance(ev['seed'], int) and ev['tier'] in ('quick', 'thorough')
    assert cov['evaluations'] >= 1 and cov['distinct_nontrivial'] >= 2 and cov['samples'] and isinstance(cov['rule'], str)
    return 'builtin'


def main(module, argv=None):
    import argparse
    ap = argparse.ArgumentParser()
    ap.add_argument('--tier', default=os.environ.get('VERIF_TIER', 'quick'))
    ap.add_argument('--replay')
    ap.add_argument('--phase', help='run only phases whose name contains this')
    ap.add_argument('--scale', type=float, default=float(os.environ.get('VERIF_SCALE', '1')), help='multiply case counts (smoke tests); enumerated phases take every 1/scale-th case and are then not exhaustive')
    ns = ap.parse_args(argv)
    tier = ns.tier if ns.tier in ('quick', 'thorough') else 'quick'
    seed = int(os.environ.get('VERIF_SEED', '0') or 0)
    prop = module.ID
    findings = load_findings(prop)

    if ns.replay:
        with open(ns.replay) as f:
            rec = json.load(f)
        fnname = rec.get('phase_check') or 'check'
        mp = multiprocessing.get_context('fork')
        a_, b_ = mp.Pipe(duplex=False)
        def child(conn):
            _watchdog(conn, 3 * CASE_LIMIT_S)
            ctx = Ctx(module, tier, seed, findings)
            try:
                run_case(rec['case'], ctx, getattr(module, fnname))
                conn.send({'ok': True, 'excluded': dict(ctx.excluded), 'harness': ctx.harness_errors})
            except Violation as v:
                conn.send({'violation': v.what, 'detail': jdump(v.detail)[:2000]})
            os._exit(0)
        pr = mp.Process(target=child, args=(b_,)); pr.start(); b_.close()
        try:
            msg = a_.recv()
        except EOFError:
            msg = {'harness': [{'traceback': 'replay process died'}], 'ok': True, 'excluded': {}}
        pr.join(5)
        if 'hang' in msg:
            print('replay: case does not finish within %ss' % msg['limit'])
            if getattr(module, 'HANG_IS_VIOLATION', False):
                print('VIOLATION property=%s replay=%s' % (prop, ns.replay)); return 1
            return 2
        if 'violation' in msg:
            print('replay: %s %s' % (msg['violation'], msg['detail']))
            print('VIOLATION property=%s replay=%s' % (prop, ns.replay))
            return 1
        if msg.get('harness'):
            print(msg['harness'][0]['traceback'])
            return 2
        if sum(msg['excluded'].values()):
            print('replay matches open known finding(s): %s' % msg['excluded'])
        print('replay: property held')
        return 0

    t0 = time.time()
    total = {'evaluations': 0, 'labels': collections.Counter(), 'excluded': collections.Counter(),
             'discarded': collections.Counter(), 'nontriv': set(), 'samples': [], 'violations': [],
             'harness_errors': [], 'inconclusive': [], 'phases': {}}
    exhaustive_all = True

    hang_violation = getattr(module, 'HANG_IS_VIOLATION', False)
    nrep = 0
    phases = module.phases(tier)
    plan = [(-1, None)] + [(pi, ph) for pi, ph in enumerate(phases) if not (ns.phase and ns.phase not in ph.name)]
    for pi, phase in plan:
        if total['violations'] or total['harness_errors'] or total['inconclusive']:
            break
        if phase is None:
            nsh = 1; name = 'regression'; kind = 'replay'
        else:
            nsh = NPROC; name = phase.name; kind = phase.kind
            if phase.kind == 'hypothesis' and phase.max_examples < 4 * NPROC:
                nsh = max(1, phase.max_examples // 4)
            if not phase.exhaustive:
                exhaustive_all = False
        tp = time.time()
        results = run_shards([(module.__name__, tier, seed, pi, k, nsh, ns.scale) for k in range(nsh)])
        pev = 0
        nconfirmed = 0
        for r in results:
            if 'hang' in r:
                fnname = r.get('fn') or 'check'
                if nconfirmed >= 1:
                    total['labels']['harness: further shard stopped by a case over the time limit (not re-run: one already confirmed)'] += 1
                    continue
                if confirm_hang(module.__name__, fnname, r['hang'], 3 * r['limit']):
                    nconfirmed += 1
                    if hang_violation:
                        total['violations'].append({'case': r['hang'], 'what': 'hang: case does not finish within %ss (alone, fresh process)' % (3 * r['limit']),
                                                    'detail': {'phase': name}, 'phase_check': fnname})
                    else:
                        total['inconclusive'].append({'case': r['hang'], 'why': 'case does not finish within %ss; termination is not part of this property' % (3 * r['limit'])})
                else:
                    # slow under load but terminating: not a finding; that shard's counts are lost, which is recorded
                    total['labels']['harness: shard stopped by a slow case that finished when re-run alone (its counts are lost)'] += 1
                continue
            if 'fatal' in r:
                total['harness_errors'].append({'case': None, 'traceback': r['fatal']})
                continue
            for line in r.get('known_lines', []):
                print(line)
            nrep += r.get('replays', 0)
            pev += r['evaluations']
            total['evaluations'] += r['evaluations']
            total['labels'].update(r['labels']); total['excluded'].update(r['excluded'])
            total['discarded'].update(r['discarded'])
            total['nontriv'] |= set(r['nontriv'])
            for s_ in r['samples']:
                if len(total['samples']) < 8:
                    total['samples'].append(s_)
            total['violations'] += r['violations']
            total['harness_errors'] += r['harness_errors']
            total['inconclusive'] += r['inconclusive']
        total['phases'][name] = {'kind': kind, 'evaluations': pev, 'wall_s': round(time.time() - tp, 1),
                                 'exhaustive': bool(phase is not None and phase.exhaustive and ns.scale >= 1)}
        print('phase %-28s %-10s evals=%-8d %.1fs' % (name, kind, pev, time.time() - tp))
        sys.stdout.flush()

    wall = time.time() - t0
    rc = 0
    paths = []
    for v in total['violations'][:5]:
        p = write_replay(prop, v['case'], v['what'], v['detail'], phase_check=v.get('phase_check'))
        paths.append(p)
        print('violation: %s' % v['what'])
        print('  detail: %s' % jdump(v['detail'])[:3000])
        print('VIOLATION property=%s replay=%s' % (prop, p))
        rc = 1
    if rc == 0 and (total['harness_errors'] or total['inconclusive']):
        for h in total['harness_errors'][:2]:
            print('HARNESS ERROR (not a violation):')
            print(h['traceback'])
            print('  case: %s' % jdump(h['case'])[:3000])
        for h in total['inconclusive'][:2]:
            print('INCONCLUSIVE: %s' % jdump(h)[:2000])
        rc = 2

    samples = total['samples'] or [{'note': 'no non-trivial sample recorded'}]
    ev = {
        'property_id': prop, 'tier': tier, 'seed': seed, 'level': module.LEVEL,
        'coverage': {
            'evaluations': total['evaluations'],
            'distinct_nontrivial': len(total['nontriv']),
            'rule': module.RULE,
            'samples': samples,
            'classes': dict(sorted(total['labels'].items())),
            'excluded_for_known_findings': dict(total['excluded']),
            'discarded': dict(total['discarded']),
            'phases': total['phases'],
            'regression_replays': nrep,
            'exhaustive': bool(exhaustive_all and phases and ns.scale >= 1),
            'known_findings_reported': sorted(findings),
        },
        'assumptions': list(getattr(module, 'ASSUMPTIONS', [])),
        'wall_s': round(wall, 2),
        'violations': len(total['violations']),
    }
    if rc != 2:
        try:
            how = validate_evidence(ev)
        except Exception as e:
            print('evidence does not validate: %r' % (e,))
            return 2 if rc == 0 else rc
        # runs against another tree (LARK_REPO: seeded changes, mutants, old revisions) must not replace the evidence of /repo itself
        evdir = os.path.join(VERIF, 'evidence') if os.path.realpath(REPO) == os.path.realpath('/repo') else os.path.join(VERIF, 'out', 'evidence-other-tree')
        os.makedirs(evdir, exist_ok=True)
        with open(os.path.join(evdir, prop + '.json'), 'w') as f:
            json.dump(ev, f, indent=1, sort_keys=True, default=repr)
    print('%s tier=%s seed=%d evaluations=%d distinct_nontrivial=%d excluded=%s wall=%.1fs rc=%d' % (
        prop, tier, seed, total['evaluations'], len(total['nontriv']), dict(total['excluded']), wall, rc))
    top = sorted(total['labels'].items(), key=lambda kv: -kv[1])[:14]
    print('classes: ' + ', '.join('%s=%d' % kv for kv in top))
    return rc
