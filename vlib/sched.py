"""Deterministic thread scheduler built on sys.settrace: exactly one thread runs at a time; at every 'line' event
inside the traced functions the running thread reaches a yield point; a schedule is the set of yield-point
indices at which control is handed to the other thread (a pre-emption).  Replays exactly."""
import sys, threading


class Sched(object):
    def __init__(self, switch_at, files, funcs):
        self.switch_at = set(switch_at); self.files = files; self.funcs = funcs
        self.cv = threading.Condition(); self.current = None; self.alive = []; self.step = 0
        self.points = []     # (function name, line) of every yield point, in order

    def trace(self, frame, event, arg):
        co = frame.f_code
        if co.co_filename in self.files and co.co_name in self.funcs:
            return self.local
        return None

    def local(self, frame, event, arg):
        if event == 'line':
            self.points.append((frame.f_code.co_name, frame.f_lineno))
            self.yp()
        return self.local

    def yp(self):
        me = threading.current_thread().name
        with self.cv:
            s = self.step; self.step += 1
            if s in self.switch_at:
                others = [a for a in self.alive if a != me]
                if others:
                    self.current = others[0]; self.cv.notify_all()
                    while self.current != me: self.cv.wait()

    def run(self, fns, timeout=20):
        res = {}
        def wrap(name, fn):
            with self.cv:
                while self.current != name: self.cv.wait()
            sys.settrace(self.trace)
            try:
                res[name] = fn()
            except BaseException as e:
                res[name] = ('EXC', type(e).__name__, str(e)[:120])
            finally:
                sys.settrace(None)
                with self.cv:
                    self.alive.remove(name)
                    self.current = self.alive[0] if self.alive else None
                    self.cv.notify_all()
        self.alive = sorted(fns)
        ts = [threading.Thread(target=wrap, args=(n, f), name=n, daemon=True) for n, f in fns.items()]
        for t in ts: t.start()
        with self.cv:
            self.current = self.alive[0]; self.cv.notify_all()
        for t in ts: t.join(timeout)
        if any(t.is_alive() for t in ts):
            raise RuntimeError('deadlock in owned schedule')
        return res
