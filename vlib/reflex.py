"""R5: reference lexer implementing the documented precedence list and the keyword rule.
terms: list of {'name', 'prio', 'pat': {'kind','value','flags'}}"""
import re
try:
    import re._parser as sre_parse
except ImportError:      # pragma: no cover
    import sre_parse
from .gram import pat_regex


def max_width(t):
    return sre_parse.parse(pat_regex(t['pat'])).getwidth()[1]


def order(terms):
    return sorted(terms, key=lambda t: (-(t.get('prio') or 0), -max_width(t), -len(t['pat']['value']), t['name']))


def lex(terms, text):
    """returns (tokens [(type, value, start)], error position or None); ignored terminals are included"""
    ordered = order(terms)
    comp = {t['name']: re.compile(pat_regex(t['pat'])) for t in terms}
    strs = [t for t in ordered if t['pat']['kind'] == 'str']
    # keyword rule: for each regexp terminal the same-priority string terminals whose literal it matches completely
    unless = {}
    for t in ordered:
        if t['pat']['kind'] != 're': continue
        c = []
        for s in strs:
            if (s.get('prio') or 0) != (t.get('prio') or 0): continue
            m = comp[t['name']].match(s['pat']['value'])
            if m is not None and m.group(0) == s['pat']['value']:
                c.append(s)
        unless[t['name']] = c
    pos = 0; out = []
    n = len(text)
    while pos < n:
        for t in ordered:
            m = comp[t['name']].match(text, pos)
            if m and m.end() > pos:
                typ = t['name']; val = m.group(0)
                for s in unless.get(typ, ()):
                    if comp[s['name']].fullmatch(val):
                        typ = s['name']; break
                out.append((typ, val, pos)); pos = m.end(); break
        else:
            return out, pos
    return out, None
