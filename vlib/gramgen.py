"""Hypothesis strategies for grammar ASTs (see gram.py) and inputs.

Families: terms='tok' prefix-free fixed strings (every lexer tokenises identically), 'ovl' overlapping fixed
strings, 're' structured regexps with several match lengths.  Options select shaping features, priorities,
acyclic-by-construction, templates.  All random choices are Hypothesis draws.
"""
from hypothesis import strategies as st
from . import gram

TOK_SETS = [['a', 'b', 'c', 'd'], ['aa', 'ab', 'b', 'c'], ['x', 'yx', 'yy', 'z'], ['a', 'ba', 'bb', 'c']]
NAMECLASH_SETS = [['comma', ',', 'plus', '+'], ['+', 'plus', 'dot', '.'], ['x', 'semicolon', ';', 'colon']]
OVL_VALUES = ['a', 'ab', 'b', 'bc', 'abc', 'c', 'ca', 'aa']
# (regex, flags, examples)
RE_FAMILY = [
    (r'a+', '', ['a', 'aa', 'aaa']), (r'[ab]+', '', ['a', 'ab', 'bba']), (r'a*b', '', ['b', 'ab', 'aab']),
    (r'(ab)+', '', ['ab', 'abab']), (r'[ab]{1,2}', '', ['a', 'ab', 'bb']), (r'a|ab', '', ['a', 'ab']),
    (r'ab|a', '', ['a', 'ab']), (r'[^c]', '', ['a', 'b', ' ']), (r'ab?', '', ['a', 'ab']), (r'a?b?c', '', ['c', 'ac', 'bc', 'abc']),
    (r'b+c?', '', ['b', 'bc', 'bbc']), (r'c|cc|ccc', '', ['c', 'cc', 'ccc']), (r'[a-c]', '', ['a', 'b', 'c']),
    (r'a', 'i', ['a', 'A']), (r'\w', '', ['a', 'b']), (r'(a|b)c*', '', ['a', 'bc', 'acc']), (r'c+', '', ['c', 'cc']),
    (r'b|bc|c', '', ['b', 'bc', 'c']),
]
IGNORES = {
    'tok': [{'kind': 'str', 'value': ' ', 'flags': ''}],
    'ovl': [{'kind': 'str', 'value': ' ', 'flags': ''}, {'kind': 'str', 'value': '_', 'flags': ''},
            {'kind': 'str', 'value': 'a', 'flags': ''}, {'kind': 'str', 'value': 'b ', 'flags': ''}, {'kind': 'str', 'value': 'c', 'flags': ''},
            # pairs where one ignored string is a proper prefix of another one (both match at the same position, the longer
            # one is not reachable by chaining the shorter): '_' / '_a', ' ' / ' b', 'c' / 'ca'
            {'kind': 'str', 'value': '_a', 'flags': ''}, {'kind': 'str', 'value': ' b', 'flags': ''}, {'kind': 'str', 'value': 'ca', 'flags': ''},
            # longer ignored strings: they can start inside a token that is being matched and end well after it
            {'kind': 'str', 'value': 'bca', 'flags': ''}, {'kind': 'str', 'value': 'c_ab', 'flags': ''}, {'kind': 'str', 'value': 'a bc', 'flags': ''}],
    're': [{'kind': 'str', 'value': ' ', 'flags': ''}, {'kind': 're', 'value': ' +', 'flags': ''},
           {'kind': 're', 'value': '[ _]', 'flags': ''}, {'kind': 're', 'value': '_+|c', 'flags': ''},
           {'kind': 'str', 'value': '_a', 'flags': ''}, {'kind': 'str', 'value': ' b', 'flags': ''}],
}


class Opts(object):
    def __init__(self, terms='tok', max_rules=4, shaping=False, priorities=False, acyclic=False, templates=False,
                 ignore=True, term_prio=False, max_alts=3, max_items=3, depth=2, big_rep=False, anon_re=False,
                 underscore_terms=None, ignore_kinds=None, nonnull=False, unit_bias=False, tok_sets=None, distinct_anon=False, unique_aliases=False, re_safe=False, ignore_in_rules=False, lit_tmpl_args=False, anon_lits=False):
        self.terms = terms; self.max_rules = max_rules; self.shaping = shaping; self.priorities = priorities
        self.acyclic = acyclic; self.templates = templates; self.ignore = ignore; self.term_prio = term_prio
        self.max_alts = max_alts; self.max_items = max_items; self.depth = depth; self.big_rep = big_rep
        self.anon_re = anon_re
        self.underscore_terms = shaping if underscore_terms is None else underscore_terms
        self.ignore_kinds = ignore_kinds
        self.anon_lits = anon_lits      # anonymous string literals (of named terminals' patterns and of values no terminal has) without any shaping feature
        self.lit_tmpl_args = lit_tmpl_args        # anonymous literals as template arguments (only in calling rules without '!')
        self.ignore_in_rules = ignore_in_rules      # an %ignore'd terminal may also be referenced by a rule (mandatory-whitespace idiom)
        self.tok_sets = tok_sets
        self.re_safe = re_safe     # only regexps whose every match length is found by lark's dynamic_complete truncation (no unsorted alternation)
        self.unique_aliases = unique_aliases   # an alias name is used by one rule only
        self.distinct_anon = distinct_anon   # anonymous literals never spell a named terminal (taken from the unused part of the prefix-free set)
        self.unit_bias = unit_bias  # many alternatives that are a single reference to a higher-ranked rule (unit chains)
        self.nonnull = nonnull      # no construct that can match the empty string (CYK-compatible)


def example_of(term):
    p = term['pat']
    return term.get('ex') or [p['value']]


@st.composite
def grammars(draw, o):
    # ---- terminals
    nt = draw(st.integers(1, 4))
    terms = []
    spare = []
    if o.terms == 'tok':
        if o.distinct_anon: nt = min(nt, 3)
        allvals = draw(st.sampled_from(o.tok_sets or TOK_SETS))
        vals = allvals[:nt]; spare = allvals[nt:]
        pats = [({'kind': 'str', 'value': v, 'flags': ''}, [v]) for v in vals]
    elif o.terms == 'ovl':
        vals = draw(st.lists(st.sampled_from(OVL_VALUES), min_size=nt, max_size=nt, unique=True))
        pats = [({'kind': 'str', 'value': v, 'flags': ''}, [v]) for v in vals]
    else:
        if o.re_safe:
            safe = [k for k, (r, f, e) in enumerate(RE_FAMILY) if r in (r'a+', r'[ab]+', r'(ab)+', r'b+c?', r'c+', r'[a-c]', r'a*b', r'[ab]{1,2}', r'(a|b)c*')]
            idx = draw(st.lists(st.sampled_from(safe + list(range(len(RE_FAMILY), len(RE_FAMILY) + len(OVL_VALUES)))), min_size=nt, max_size=nt, unique=True))
        else:
            idx = draw(st.lists(st.integers(0, len(RE_FAMILY) + len(OVL_VALUES) - 1), min_size=nt, max_size=nt, unique=True))
        pats = []
        for k in idx:
            if k < len(RE_FAMILY):
                r, f, ex = RE_FAMILY[k]
                pats.append(({'kind': 're', 'value': r, 'flags': f}, ex))
            else:
                v = OVL_VALUES[k - len(RE_FAMILY)]
                pats.append(({'kind': 'str', 'value': v, 'flags': ''}, [v]))
    for i, (pat, ex) in enumerate(pats):
        name = 'ABCD'[i]
        if o.underscore_terms and i > 0 and draw(st.integers(0, 4)) == 0:
            name = '_' + name
        t = {'name': name, 'prio': None, 'pat': pat, 'ex': ex}
        if o.term_prio and draw(st.integers(0, 2)) == 0:
            t['prio'] = draw(st.sampled_from([-1, 1, 2]))
        terms.append(t)
    tnames = [t['name'] for t in terms]
    ignore = []
    if o.ignore == 'always' or (o.ignore and draw(st.integers(0, 9)) < 4):
        cands = [p for p in IGNORES[o.ignore_kinds or o.terms] if all(p['value'] != t['pat']['value'] for t in terms)]
        k = draw(st.integers(1, 3)) if o.terms != 'tok' else 1
        chosen = draw(st.lists(st.sampled_from(cands), min_size=1, max_size=k, unique_by=lambda p: p['value']))
        chosen = list(draw(st.permutations(chosen)))      # declaration order of the %ignore statements matters to a scanner
        for n, p in enumerate(chosen):
            ex = {' +': [' ', '  '], '[ _]': [' ', '_'], '_+|c': ['_', '__', 'c']}.get(p['value'], [p['value']])
            terms.append({'name': 'IG%d' % n, 'prio': None, 'pat': p, 'ex': ex})
            ignore.append('IG%d' % n)

    # ---- rule names / modifiers
    nr = draw(st.integers(1, o.max_rules))
    names = ['start']
    for i in range(1, nr):
        nm = 'r%d' % i
        if o.shaping and draw(st.integers(0, 4)) == 0:
            nm = '_' + nm
        names.append(nm)
    tmpl = None
    if o.templates and draw(st.integers(0, 2)) == 0:
        tmpl = draw(st.sampled_from(['tp', '_tp', 'tp']))
    pool = []     # EBNF items generated so far (re-used to provoke shared helper rules)

    def named_term_item():
        # template arguments are named terminals only: whether an anonymous literal argument is filtered inside the
        # template depends on the calling rule's '!' in lark and the documentation is silent about it
        return ['t', tnames[draw(st.integers(0, len(pats) - 1))]]

    def tmpl_arg():
        if o.lit_tmpl_args and draw(st.booleans()):
            if o.distinct_anon:
                if spare: return ['lit', spare[draw(st.integers(0, len(spare) - 1))], '']
            else:
                t = terms[draw(st.integers(0, len(pats) - 1))]
                if t['pat']['kind'] == 'str': return ['lit', t['pat']['value'], '']
        return named_term_item()

    def term_item():
        if o.distinct_anon:
            if spare and o.shaping and draw(st.integers(0, 3)) == 0:
                return ['lit', spare[draw(st.integers(0, len(spare) - 1))], '']
            return ['t', tnames[draw(st.integers(0, len(pats) - 1))]]
        if o.anon_lits and not o.shaping and draw(st.integers(0, 2)) == 0:
            allv = [t['pat']['value'] for t in terms[:len(pats)] if t['pat']['kind'] == 'str'] + list(spare)
            if allv: return ['lit', allv[draw(st.integers(0, len(allv) - 1))], '']
        if o.shaping and draw(st.integers(0, 3)) == 0:
            # anonymous literal; sometimes the pattern of a named terminal
            t = terms[draw(st.integers(0, len(pats) - 1))]
            if t['pat']['kind'] == 'str':
                return ['lit', t['pat']['value'], '']
            if o.anon_re:
                return ['re', t['pat']['value'], t['pat']['flags']]
        return ['t', tnames[draw(st.integers(0, len(pats) - 1))]]

    def anchored_seq(allowed, depth, params=()):
        n = draw(st.integers(1, o.max_items))
        pos = draw(st.integers(0, n - 1))
        out = []
        for k in range(n):
            if k == pos:
                if params and draw(st.booleans()):
                    out.append(['p', params[draw(st.integers(0, len(params) - 1))]])
                else:
                    out.append(term_item())
            else:
                out.append(item(allowed, depth, params))
        return out

    def body_nonnullable(allowed, depth, params=()):
        if depth <= 0 or draw(st.integers(0, 2)) > 0:
            if params and draw(st.booleans()):
                return ['p', params[draw(st.integers(0, len(params) - 1))]]
            return term_item()
        return ['grp', [anchored_seq(allowed, depth - 1, params) for _ in range(draw(st.integers(1, 2)))]]

    def simple_item(allowed, params=()):
        # body of x~n..m: lark expands it into one alternative per count, so nested repetitions/alternations
        # multiply; keep bodies small (a size matter, not a property matter)
        c = draw(st.integers(0, 9))
        if c < 5 or not allowed:
            if params and draw(st.booleans()):
                return ['p', params[draw(st.integers(0, len(params) - 1))]]
            return term_item()
        if c < 8:
            return ['n', allowed[draw(st.integers(0, len(allowed) - 1))]]
        return ['grp', [[term_item() for _ in range(draw(st.integers(1, 2)))] for _ in range(draw(st.integers(1, 2)))]]

    def item(allowed, depth, params=()):
        """allowed: rule names that may be referenced here"""
        if pool and o.shaping and draw(st.integers(0, 7)) == 0:
            cand = pool[draw(st.integers(0, len(pool) - 1))]
            if not params and _refs_ok(cand, allowed):
                return cand
        c = draw(st.integers(0, 99))
        if depth <= 0 or c < 38:
            if params and draw(st.integers(0, 2)) == 0:
                return ['p', params[draw(st.integers(0, len(params) - 1))]]
            return term_item()
        if c < 62:
            if allowed:
                return ['n', allowed[draw(st.integers(0, len(allowed) - 1))]]
            return term_item()
        if c < 68:
            if tmpl and not params:
                nparams = 1 if tmpl_params is None else len(tmpl_params)
                return ['tmpl', tmpl, [tmpl_arg() for _ in range(nparams)]]
            return term_item()
        if c < 75:
            return ['grp', [seq(allowed, depth - 1, params) for _ in range(draw(st.integers(1, 3)))]]
        if o.nonnull and c >= 75:
            if c < 88:
                it = ['plus', item(allowed, depth - 1, params)]
            else:
                lo = draw(st.integers(1, 2)); hi = lo + draw(st.integers(0, 2))
                it = ['rep', simple_item(allowed, params), lo, hi]
            if not params: pool.append(it)
            return it
        if c < 82:
            it = ['maybe', [seq(allowed, depth - 1, params, in_maybe=True) for _ in range(draw(st.integers(1, 2)))]]
        elif c < 87:
            it = ['opt', item(allowed, depth - 1, params)]
        elif c < 91:
            it = ['star', body_nonnullable(allowed, depth - 1, params) if o.acyclic else item(allowed, depth - 1, params)]
        elif c < 95:
            it = ['plus', body_nonnullable(allowed, depth - 1, params) if o.acyclic else item(allowed, depth - 1, params)]
        else:
            lo = draw(st.integers(0, 2)); hi = lo + draw(st.integers(0, 2))
            it = ['rep', simple_item(allowed, params), lo, hi]
        if it[0] in ('star', 'plus', 'rep') and not params:
            pool.append(it)
        return it

    def seq(allowed, depth, params=(), in_maybe=False):
        out = []
        for _ in range(draw(st.integers(0 if not (in_maybe or o.nonnull) else 1, o.max_items))):
            it = item(allowed, depth, params)
            if in_maybe and it[0] in ('star', 'plus'):
                it = it[1]          # directly inside [..] the placeholder count of * and + is unspecified: not generated
                if it[0] in ('star', 'plus'): it = term_item()
            out.append(it)
        return out

    tmpl_params = None
    rules = []
    if tmpl:
        tmpl_params = ['x'] if draw(st.booleans()) else ['x', 'y']
    for i, nm in enumerate(names):
        higher = names[i + 1:]
        nalts = draw(st.integers(1, o.max_alts))
        alts = []
        seen = set()
        for k in range(nalts):
            last = (k == nalts - 1)
            if o.unit_bias and higher and draw(st.integers(0, 1)) == 0:
                its = [['n', higher[draw(st.integers(0, len(higher) - 1))]]]
            elif last:
                # productive by construction: only terminals and higher-ranked rules
                its = seq(higher, o.depth)
            elif o.acyclic:
                if draw(st.booleans()):
                    its = anchored_seq(names, o.depth)
                else:
                    its = seq(higher, o.depth)
            else:
                its = seq(names, o.depth)
            import copy as _copy
            its = tame(_copy.deepcopy(its))       # deep copy: items re-used from the pool must not be changed in place
            key = gram.render_seq(its)
            if key in seen:
                continue
            seen.add(key)
            alias = None
            if o.shaping and not nm.startswith('_') and draw(st.integers(0, 5)) == 0:
                alias = 'al%d' % draw(st.integers(0, 1))
                if o.unique_aliases: alias = 'al_%s_%d' % (nm.strip('_'), draw(st.integers(0, 1)))
            alts.append({'items': its, 'alias': alias})
        mod = ''
        if o.shaping and nm != 'start':
            mod = draw(st.sampled_from(['', '', '', '?', '?', '!', '?!']))
            if nm.startswith('_') and '?' in mod:
                mod = mod.replace('?', '')
        elif o.shaping:
            mod = draw(st.sampled_from(['', '', '!']))
        prio = None
        if o.priorities and draw(st.integers(0, 1)) == 0:
            prio = draw(st.sampled_from([-3, -2, -1, 1, 2, 3]))
        if '!' in mod and o.lit_tmpl_args:
            # whether a literal written in a '!' rule stays kept inside a plain template is not documented: such calls get named terminals
            for a in alts: a['items'] = _named_tmpl_args(a['items'], tnames[0])
        rules.append({'name': nm, 'mod': mod, 'prio': prio, 'params': [], 'alts': alts})
    # reachability: every rule is referenced from a lower-ranked reachable rule
    for i in range(1, len(names)):
        reached = _reached(rules)
        if names[i] not in reached:
            cands = [r for r in rules[:i] if r['name'] in reached]
            r = cands[draw(st.integers(0, len(cands) - 1))]
            a = r['alts'][draw(st.integers(0, len(r['alts']) - 1))]
            a['items'].insert(draw(st.integers(0, len(a['items']))), ['n', names[i]])
    if o.ignore_in_rules and ignore and draw(st.booleans()):
        for _ in range(draw(st.integers(1, 2))):
            r = rules[draw(st.integers(0, len(rules) - 1))]
            a = r['alts'][draw(st.integers(0, len(r['alts']) - 1))]
            a['items'].insert(draw(st.integers(0, len(a['items']))), ['t', ignore[draw(st.integers(0, len(ignore) - 1))]])
    if tmpl:
        alts = []
        seen = set()
        for k in range(draw(st.integers(1, 2))):
            its = anchored_seq([], 1, tuple(tmpl_params))
            if not any(i[0] == 'p' for i in its):
                its.append(['p', tmpl_params[0]])
            key = gram.render_seq(its)
            if key in seen: continue
            seen.add(key); alts.append({'items': its, 'alias': None})
        mod = draw(st.sampled_from(['', '', '?', '!'])) if not tmpl.startswith('_') else draw(st.sampled_from(['', '!']))
        rules.append({'name': tmpl, 'mod': mod, 'prio': None, 'params': tmpl_params, 'alts': alts})
        if draw(st.integers(0, 1)) == 0:
            # a second template that the first one calls with its own parameter (arguments travel through two instantiations)
            tq = draw(st.sampled_from(['tq', '_tq', 'tq']))
            its = anchored_seq([], 1, ('z',))
            if not any(i[0] == 'p' for i in its):
                its.append(['p', 'z'])
            mod2 = draw(st.sampled_from(['', '!', '?', '!'])) if not tq.startswith('_') else draw(st.sampled_from(['', '!']))
            rules.append({'name': tq, 'mod': mod2, 'prio': None, 'params': ['z'], 'alts': [{'items': its, 'alias': None}]})
            a = alts[draw(st.integers(0, len(alts) - 1))]
            a['items'].insert(draw(st.integers(0, len(a['items']))), ['tmpl', tq, [['p', tmpl_params[draw(st.integers(0, len(tmpl_params) - 1))]]]])
        if not _uses_tmpl(rules):
            rules[0]['alts'].append({'items': [['tmpl', tmpl, [(tmpl_arg() if '!' not in rules[0]['mod'] else named_term_item()) for _ in tmpl_params]]], 'alias': None})
    return {'rules': rules, 'terms': terms, 'ignore': ignore}


def expansion_factor(items):
    """rough number of BNF alternatives lark creates for one alternative (x~n..m, groups, optionals multiply)"""
    f = 1
    for i in items:
        f *= _item_factor(i)
        if f > 10**6: return f
    return f


def _item_factor(i):
    k = i[0]
    if k in ('t', 'n', 'p', 'lit', 're', 'tmpl', 'star', 'plus'): return 1 if k not in ('star',) else 2
    if k == 'opt': return 1 + _item_factor(i[1])
    if k == 'maybe': return 1 + sum(expansion_factor(a) for a in i[1])
    if k == 'grp': return max(1, sum(expansion_factor(a) for a in i[1]))
    if k == 'rep':
        b = _item_factor(i[1])
        return sum(b ** c for c in range(i[2], i[3] + 1)) if i[3] < 50 else 1
    return 1


def tame(items, limit=48):
    """keep the expansion of one alternative below `limit` BNF alternatives by fixing the count of ranged repetitions
    (x~2..4 -> x~2) from the right - a size bound (lark's LALR construction is quadratic in it), not a property matter"""
    def fix(its):
        for i in reversed(its):
            if i[0] == 'rep' and i[3] != i[2]:
                i[3] = i[2]; return True
            if i[0] in ('grp', 'maybe'):
                for a in i[1]:
                    if fix(a): return True
            elif i[0] in ('opt', 'star', 'plus', 'rep'):
                if fix([i[1]]): return True
        return False
    n = 0
    while expansion_factor(items) > limit and n < 20:
        if not fix(items): break
        n += 1
    return items


def _refs_ok(item, allowed):
    k = item[0]
    if k == 'n': return item[1] in allowed
    if k in ('grp', 'maybe'): return all(_refs_ok(i, allowed) for a in item[1] for i in a)
    if k in ('opt', 'star', 'plus', 'rep'): return _refs_ok(item[1], allowed)
    if k == 'tmpl': return False
    return True


def _reached(rules):
    by = {r['name']: r for r in rules}
    seen = set(); stack = ['start']
    def refs(item, acc):
        k = item[0]
        if k == 'n': acc.append(item[1])
        elif k in ('grp', 'maybe'):
            for a in item[1]:
                for i in a: refs(i, acc)
        elif k in ('opt', 'star', 'plus', 'rep'): refs(item[1], acc)
    while stack:
        n = stack.pop()
        if n in seen or n not in by: continue
        seen.add(n)
        for a in by[n]['alts']:
            for i in a['items']: refs(i, stack)
    return seen


def _named_tmpl_args(items, name):
    out = []
    for i in items:
        k = i[0]
        if k == 'tmpl': out.append(['tmpl', i[1], [a if a[0] != 'lit' else ['t', name] for a in i[2]]])
        elif k in ('grp', 'maybe'): out.append([k, [_named_tmpl_args(a, name) for a in i[1]]])
        elif k in ('opt', 'star', 'plus'): out.append([k, _named_tmpl_args([i[1]], name)[0]])
        elif k == 'rep': out.append(['rep', _named_tmpl_args([i[1]], name)[0], i[2], i[3]])
        else: out.append(i)
    return out


def _uses_tmpl(rules):
    def u(item):
        k = item[0]
        if k == 'tmpl': return True
        if k in ('grp', 'maybe'): return any(u(i) for a in item[1] for i in a)
        if k in ('opt', 'star', 'plus', 'rep'): return u(item[1])
        return False
    return any(u(i) for r in rules if not r.get('params') for a in r['alts'] for i in a['items'])


# ------------------------------------------------------------------------ inputs
def alphabet(g):
    chars = set()
    for t in g['terms']:
        for e in example_of(t): chars |= set(e)
    return sorted(chars)


def gen_sentence(g, rnd, conc=None, max_depth=5, sep_prob=0.3):
    """random derivation of the AST -> text (None if the budget was exhausted)"""
    conc = conc or gram.Concrete(g)
    by = {t['name']: t for t in g['terms']}
    ign = [by[n] for n in g.get('ignore', [])]
    out = []
    budget = [60]

    def sep():
        if ign and rnd.random() < sep_prob:
            out.append(rnd.choice(example_of(rnd.choice(ign))))

    def emit(s):
        out.append(s); sep()

    def ex(item, depth):
        budget[0] -= 1
        if budget[0] < 0: raise OverflowError()
        k = item[0]
        if k == 't':
            t = by[item[1]]; v = rnd.choice(example_of(t))
            if 'i' in t['pat'].get('flags', '') and rnd.random() < 0.5: v = v.upper()
            emit(v)
        elif k == 'lit': emit(item[1])
        elif k == 're':
            fam = [e for r, f, e in RE_FAMILY if r == item[1]]
            emit(rnd.choice(fam[0]) if fam else item[1])
        elif k == 'n':
            r = conc.rules[item[1]]
            alts = r['alts']
            a = alts[-1] if depth >= max_depth else rnd.choice(alts)
            for i in a['items']: ex(i, depth + 1)
        elif k == 'grp':
            for i in rnd.choice(item[1]): ex(i, depth)
        elif k == 'maybe':
            if rnd.random() < 0.6 and depth < max_depth:
                for i in rnd.choice(item[1]): ex(i, depth)
        elif k == 'opt':
            if rnd.random() < 0.6 and depth < max_depth: ex(item[1], depth)
        elif k in ('star', 'plus'):
            n = rnd.choice([0, 1, 1, 2, 3]) if depth < max_depth else 0
            if k == 'plus': n = max(1, n)
            for _ in range(n): ex(item[1], depth + 1)
        elif k == 'rep':
            n = rnd.randint(item[2], item[3]) if depth < max_depth else item[2]
            for _ in range(n): ex(item[1], depth + 1)
        else:
            raise ValueError(item)
    try:
        sep()
        ex(['n', 'start'], 0)
    except OverflowError:
        return None
    return ''.join(out)


@st.composite
def inputs(draw, g, max_len=10, n=4, extra_chars='', conc=None):
    """a list of n texts: sentences from a random derivation (some mutated by one edit) and arbitrary strings"""
    alpha = alphabet(g) + list(extra_chars)
    rnd = draw(st.randoms(use_true_random=False))
    conc = conc or gram.Concrete(g)
    out = []
    for k in range(n):
        mode = draw(st.integers(0, 4))
        w = None
        if mode <= 3:
            w = gen_sentence(g, rnd, conc)
            if w is not None and len(w) > max_len + (4 if max_len > 6 else 0):
                w = None
            if w is not None and mode >= 2 and alpha:
                # one edit
                e = draw(st.integers(0, 2)); p = draw(st.integers(0, max(0, len(w))))
                ch = alpha[draw(st.integers(0, len(alpha) - 1))]
                if e == 0: w = w[:p] + ch + w[p:]
                elif e == 1 and w: w = w[:p] + w[p + 1:]
                elif w: w = w[:p] + ch + w[p + 1:]
        if w is None:
            w = ''.join(draw(st.lists(st.sampled_from(alpha or ['a']), max_size=max_len)))
        out.append(w)
    return out


@st.composite
def grammar_and_inputs(draw, o, max_len=10, n=4, extra_chars=''):
    g = draw(grammars(o))
    ws = draw(inputs(g, max_len, n, extra_chars))
    return {'g': g, 'texts': ws}
