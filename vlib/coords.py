"""R6: source coordinates recomputed from offsets."""


def line_col(text, pos, nl='\n'):
    """1-based (line, column) of offset pos"""
    if isinstance(text, (bytes, bytearray)) and isinstance(nl, str):
        nl = nl.encode()
    line = 1 + text.count(nl, 0, pos)
    col = pos - (text.rfind(nl, 0, pos) + 1) + 1
    return (line, col)
