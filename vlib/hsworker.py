"""Persistent helper process started with a chosen PYTHONHASHSEED.  Reads JSON requests on stdin
({'g': grammar text, 'opts': Lark options, 'texts': [...], 'repeat': n}), answers one JSON line with the
normalised outcome of every parse.  Used to decide 'same result in every process / hash seed'."""
import sys, os, json
sys.path.insert(0, os.environ.get('LARK_REPO', '/repo'))
sys.path.insert(0, os.path.dirname(os.path.dirname(os.path.abspath(__file__))))
sys.setrecursionlimit(20000)
import logging; logging.disable(logging.CRITICAL)
import warnings; warnings.simplefilter('ignore')


def norm(t):
    if t is None: return None
    if hasattr(t, 'children'):
        return ['N', str(t.data), [norm(c) for c in t.children]]
    if hasattr(t, 'type'):
        return ['T', t.type, str(t.value), t.start_pos]
    return ['V', repr(t)]


def serve():
    from lark import Lark
    from lark.exceptions import UnexpectedInput, GrammarError, ParseError
    for line in sys.stdin:
        req = json.loads(line)
        out = []
        try:
            insts = [Lark(req['g'], **req['opts']) for _ in range(req.get('instances', 1))]
            for w in req['texts']:
                res = []
                for p in insts:
                    for _ in range(req.get('repeat', 1)):
                        try:
                            res.append(['ok', norm(p.parse(w))])
                        except UnexpectedInput as e:
                            res.append(['reject', type(e).__name__])
                        except ParseError as e:
                            res.append(['reject', 'ParseError'])
                        except Exception as e:
                            res.append(['exc', type(e).__name__, str(e)[:200]])
                out.append(res)
            ans = {'results': out}
        except GrammarError as e:
            ans = {'grammar_error': str(e)[:200]}
        except Exception as e:
            ans = {'construct_exc': [type(e).__name__, str(e)[:200]]}
        sys.stdout.write(json.dumps(ans) + '\n'); sys.stdout.flush()


class Pool(object):
    """client side: one worker per hash seed, started lazily, one request at a time"""
    def __init__(self, seeds):
        self.seeds = list(seeds); self.procs = {}

    def _get(self, seed):
        import subprocess
        p = self.procs.get(seed)
        if p is None or p.poll() is not None:
            env = dict(os.environ, PYTHONHASHSEED=str(seed))
            p = subprocess.Popen([sys.executable, os.path.abspath(__file__)], stdin=subprocess.PIPE, stdout=subprocess.PIPE,
                                 env=env, text=True, bufsize=1)
            self.procs[seed] = p
        return p

    def ask(self, req):
        out = {}
        data = json.dumps(req) + '\n'
        ps = [(s, self._get(s)) for s in self.seeds]
        for s, p in ps:
            p.stdin.write(data); p.stdin.flush()
        for s, p in ps:
            line = p.stdout.readline()
            if not line:
                raise RuntimeError('hash-seed worker %s died' % s)
            out[s] = json.loads(line)
        return out

    def close(self):
        for p in self.procs.values():
            try: p.stdin.close(); p.terminate()
            except Exception: pass
        self.procs = {}


if __name__ == '__main__':
    serve()
