#!/venv/bin/python
"""Coverage-guided (atheris/libFuzzer) target for the exception-type clause of C08 on the repository's own grammars:
whatever bytes arrive, parse() returns or raises a subclass of UnexpectedInput (DedentError for the Python grammar with its
Indenter; GrammarError/UnexpectedInput for the grammar-of-grammars target) - never another exception type.
usage: c08_target.py <target> [libFuzzer args]   targets: json, python, larkgrammar, calc"""
import sys, os
HERE = os.path.dirname(os.path.dirname(os.path.abspath(__file__)))
sys.path[:0] = [os.environ.get('LARK_REPO', '/repo'), os.path.join(HERE, '.deps')]
import logging; logging.disable(logging.CRITICAL)
import atheris

target = sys.argv[1]
with atheris.instrument_imports(include=['lark']):
    import lark
    from lark import Lark
    from lark.exceptions import UnexpectedInput, GrammarError, LarkError
    from lark.indenter import PythonIndenter, DedentError

JSON_G = r'''
?start: value
?value: object | array | string | SIGNED_NUMBER -> number | "true" -> true | "false" -> false | "null" -> null
array  : "[" [value ("," value)*] "]"
object : "{" [pair ("," pair)*] "}"
pair   : string ":" value
string : ESCAPED_STRING
%import common.ESCAPED_STRING
%import common.SIGNED_NUMBER
%import common.WS
%ignore WS
'''
CALC_G = r'''
?start: sum
?sum: product | sum "+" product -> add | sum "-" product -> sub
?product: atom | product "*" atom -> mul | product "/" atom -> div
?atom: NUMBER -> number | "-" atom -> neg | NAME -> var | "(" sum ")"
%import common.CNAME -> NAME
%import common.NUMBER
%import common.WS_INLINE
%ignore WS_INLINE
'''
if target == 'json':
    parsers = [Lark(JSON_G, parser='lalr'), Lark(JSON_G, parser='earley')]
    allowed = (UnexpectedInput,)
elif target == 'calc':
    parsers = [Lark(CALC_G, parser='lalr', lexer='basic'), Lark(CALC_G, parser='earley', lexer='dynamic_complete'), Lark(CALC_G, parser='cyk')]
    allowed = (UnexpectedInput, lark.exceptions.ParseError)
elif target == 'python':
    parsers = [Lark.open_from_package('lark', 'python.lark', ['grammars'], parser='lalr', postlex=PythonIndenter(), start='file_input')]
    allowed = (UnexpectedInput, DedentError)
elif target == 'larkgrammar':
    parsers = []
    allowed = (GrammarError, UnexpectedInput)
else:
    raise SystemExit('unknown target')


def one(data):
    try:
        text = data.decode('utf-8')
    except UnicodeDecodeError:
        text = data.decode('latin1')
    if len(text) > 200:
        text = text[:200]
    if target == 'larkgrammar':
        try:
            Lark(text, parser='lalr')
        except allowed:
            pass
        except (lark.exceptions.LexError, lark.exceptions.ConfigurationError):
            pass
        return
    for p in parsers:
        try:
            p.parse(text + ('\n' if target == 'python' else ''))
        except allowed:
            pass


atheris.Setup([sys.argv[0]] + sys.argv[2:], one)
atheris.Fuzz()
