#!/venv/bin/python
"""Single entry point:  run.py <Cnn> --tier quick|thorough [--replay file] [--phase name]"""
import os, sys

def _reexec():
    if os.environ.get('PYTHONHASHSEED') != '0':
        env = dict(os.environ); env['PYTHONHASHSEED'] = '0'
        os.execve(sys.executable, [sys.executable] + sys.argv, env)

def main():
    _reexec()
    here = os.path.dirname(os.path.abspath(__file__))
    repo = os.environ.get('LARK_REPO', '/repo')
    sys.path[:0] = [repo, here, os.path.join(here, '.deps')]
    sys.setrecursionlimit(20000)
    import warnings; warnings.simplefilter('ignore')
    import logging; logging.disable(logging.CRITICAL)
    if len(sys.argv) < 2:
        print('usage: run.py <Cnn> [--tier quick|thorough] [--replay f]'); return 2
    pid = sys.argv[1].upper()
    import glob, importlib
    mods = glob.glob(os.path.join(here, 'checks', pid.lower() + '_*.py'))
    if len(mods) != 1:
        print('no unique check module for %s' % pid); return 2
    modname = 'checks.' + os.path.basename(mods[0])[:-3]
    try:
        module = importlib.import_module(modname)
        import lark
        if not os.path.abspath(lark.__file__).startswith(os.path.abspath(repo)):
            print('lark imported from %s, not %s' % (lark.__file__, repo)); return 2
    except Exception:
        import traceback; traceback.print_exc(); return 2
    from vlib import harness
    try:
        return harness.main(module, sys.argv[2:])
    except Exception:
        import traceback; traceback.print_exc(); return 2

if __name__ == '__main__':
    sys.exit(main())
